import RsModel.Lemmas.CombModes
import RsModel.Lemmas.ModeLeaves
/-!
# C09: composed chunks, for the whole stream, in terms of the inner map

What the combinator knows about the inner map — the per-line segment data, the inner source / name value tables, the inner
source contents and the index of the inner source among the outer sources — is written when the inner source is announced and
never afterwards (`CombSt.stat`).  After the announcements of the outer stream it is exactly what the inner map's own stream
delivered.  With the table invariant `KInv` and the search lemma this turns the per-chunk composition into a statement about
the whole stream in terms of lookups in the inner map.
-/
namespace Rs

/-- the part of the state that only an announcement of the inner source changes -/
def CombSt.stat (st : CombSt) : List LineData × List (Text × Option Text) × List Text × List (Option Text) × Int × Option Text :=
  (st.lineData, st.innerSourceIndexValueMapping, st.innerNameIndexValueMapping, st.innerSourceContents, st.innerSourceIndex, st.innerSource)

theorem combPass_stat (st : CombSt) (chunk : Option Text) (m : Mapping) (a b c d : Int) : (combPass st chunk m a b c d).1.stat = st.stat := by
  unfold combPass
  simp only
  repeat' split
  all_goals rfl

theorem combNoInner_stat (cfg : CombCfg) (st : CombSt) (chunk : Option Text) (m : Mapping) (a b c d : Int) :
    (combNoInner cfg st chunk m a b c d).1.stat = st.stat := by
  unfold combNoInner
  split
  · rfl
  · split
    · split
      · rw [combPass_stat]; rfl
      · simp only; rw [combPass_stat]; rfl
    · exact combPass_stat _ _ _ _ _ _ _

theorem combSrcResolve_stat (st : CombSt) (isi : Nat) : (combSrcResolve st isi).1.stat = st.stat := by
  unfold combSrcResolve; dsimp only; split <;> rfl

theorem combNameResolve_stat (st : CombSt) (isi : Nat) (seg : InnerSeg) (a b c : Int) :
    (combNameResolve st isi seg a b c).1.stat = st.stat := by
  unfold combNameResolve
  simp only
  repeat' split
  all_goals rfl

theorem combFound_stat (st : CombSt) (chunk : Option Text) (m : Mapping) (seg : InnerSeg) (ic : Text) (a b : Int) :
    (combFound st chunk m seg ic a b).1.stat = st.stat := by
  unfold combFound
  dsimp only
  rw [combNameResolve_stat, combSrcResolve_stat]

theorem combOnChunk_stat (cfg : CombCfg) (st : CombSt) (chunk : Option Text) (m : Mapping) : (combOnChunk cfg st chunk m).1.stat = st.stat := by
  rw [combOnChunk_eq]
  unfold combOnChunkI
  split
  · split
    · exact combNoInner_stat _ _ _ _ _ _ _ _
    · split
      · exact combFound_stat _ _ _ _ _ _ _
      · exact combNoInner_stat _ _ _ _ _ _ _ _
  · exact combPass_stat _ _ _ _ _ _ _

theorem combOnName_stat (st : CombSt) (i : Nat) (n : Text) : (combOnName st i n).stat = st.stat := rfl

theorem combOnSource_stat (cfg : CombCfg) (st : CombSt) (i : Nat) (s : Text) (c : Option Text) (h : (s == cfg.innerName) = false) :
    (combOnSource cfg st i s c).1.stat = st.stat := by
  unfold combOnSource
  simp only [h, Bool.false_eq_true, if_false]
  rfl

/-! ### what is recorded when the inner source is announced -/

/-- the announced files with their contents -/
def annSC : List Ev → List (Text × Option Text)
  | [] => []
  | .source _ s c :: es => (s, c) :: annSC es
  | _ :: es => annSC es

theorem annSC_append (a b : List Ev) : annSC (a ++ b) = annSC a ++ annSC b := by
  induction a with
  | nil => rfl
  | cons e es ih => cases e <;> simp [annSC, ih]

theorem annSC_fst (a : List Ev) : (annSC a).map (·.1) = annS a := by
  induction a with
  | nil => rfl
  | cons e es ih => cases e <;> simp [annSC, annS, ih]

theorem annSC_mem (evs : List Ev) (s : Text) (c : Option Text) (h : (s, c) ∈ annSC evs) : ∃ i, Ev.source i s c ∈ evs := by
  induction evs with
  | nil => simp [annSC] at h
  | cons e es ih =>
    cases e with
    | chunk t m => simp only [annSC] at h; obtain ⟨i, hi⟩ := ih h; exact ⟨i, List.mem_cons_of_mem _ hi⟩
    | name i n => simp only [annSC] at h; obtain ⟨i', hi⟩ := ih h; exact ⟨i', List.mem_cons_of_mem _ hi⟩
    | source i s0 c0 =>
      simp only [annSC, List.mem_cons, Prod.mk.injEq] at h
      rcases h with ⟨rfl, rfl⟩ | h
      · exact ⟨i, List.mem_cons_self⟩
      · obtain ⟨i', hi⟩ := ih h; exact ⟨i', List.mem_cons_of_mem _ hi⟩

/-- the recorded knowledge about the inner map: index of the inner source among the outer sources, per-line segments, value tables,
the content the inner source is reported with -/
structure InnerRec (st : CombSt) (k : Nat) (innerEvs : List Ev) (osrc : Option Text) : Prop where
  isi : st.innerSourceIndex = k
  segs : ∀ L, 1 ≤ L → segsAt st.lineData L = ((chunkMs innerEvs).filter fun m => m.gl == L).map toSeg
  srcs : st.innerSourceIndexValueMapping.map (·.1) = annS innerEvs
  names : st.innerNameIndexValueMapping = annN innerEvs
  pairs : st.innerSourceIndexValueMapping = annSC innerEvs
  isrc : st.innerSource = osrc
  conts : st.innerSourceContents = (annSC innerEvs).map (·.2)

theorem innerRec_of_stat (st st' : CombSt) (k : Nat) (E : List Ev) (osrc : Option Text) (h : st'.stat = st.stat) (r : InnerRec st k E osrc) : InnerRec st' k E osrc := by
  simp only [CombSt.stat, Prod.mk.injEq] at h
  obtain ⟨h1, h2, h3, h4, h5, h6⟩ := h
  exact ⟨by rw [h5]; exact r.isi, fun L hL => by rw [h1]; exact r.segs L hL, by rw [h2]; exact r.srcs, by rw [h3]; exact r.names,
    by rw [h2]; exact r.pairs, by rw [h6]; exact r.isrc, by rw [h4]; exact r.conts⟩

/-- the source value table after recording a stream that announces densely: exactly its announcements, with contents -/
theorem innerFold_pairs : ∀ (evs done : List Ev) (st : CombSt), DeclOK (annS done).length (annN done).length evs →
    st.innerSourceIndexValueMapping = annSC done →
    (evs.foldl combInnerEv st).innerSourceIndexValueMapping = annSC (done ++ evs) := by
  intro evs
  induction evs with
  | nil => intro done st _ h1; simpa using h1
  | cons e es ih =>
    intro done st hd h1
    simp only [List.foldl_cons]
    have hsplit : done ++ e :: es = (done ++ [e]) ++ es := by simp
    rw [hsplit]
    cases e with
    | chunk t m =>
      apply ih (done ++ [Ev.chunk t m]) _
      · simpa [annS_append, annN_append, annS, annN] using hd.2
      · simpa [annSC_append, annSC, combInnerEv] using h1
    | source i s c =>
      obtain ⟨rfl, hd2⟩ := hd
      apply ih (done ++ [Ev.source _ s c]) _
      · simpa [annS_append, annN_append, annS, annN] using hd2
      · simp only [combInnerEv, h1, annSC_append, annSC]
        have : (annS done).length = (annSC done).length := by rw [← annSC_fst]; simp
        rw [this]
        exact lmInsert_at_length _ _ _
    | name i n =>
      obtain ⟨rfl, hd2⟩ := hd
      apply ih (done ++ [Ev.name _ n]) _
      · simpa [annS_append, annN_append, annS, annN] using hd2
      · simpa [annSC_append, annSC, combInnerEv] using h1

theorem innerFold_conts : ∀ (evs done : List Ev) (st : CombSt), DeclOK (annS done).length (annN done).length evs →
    st.innerSourceContents = (annSC done).map (·.2) →
    (evs.foldl combInnerEv st).innerSourceContents = (annSC (done ++ evs)).map (·.2) := by
  intro evs
  induction evs with
  | nil => intro done st _ h1; simpa using h1
  | cons e es ih =>
    intro done st hd h1
    simp only [List.foldl_cons]
    have hsplit : done ++ e :: es = (done ++ [e]) ++ es := by simp
    rw [hsplit]
    cases e with
    | chunk t m =>
      apply ih (done ++ [Ev.chunk t m]) _
      · simpa [annS_append, annN_append, annS, annN] using hd.2
      · simpa [annSC_append, annSC, combInnerEv] using h1
    | source i s c =>
      obtain ⟨rfl, hd2⟩ := hd
      apply ih (done ++ [Ev.source _ s c]) _
      · simpa [annS_append, annN_append, annS, annN] using hd2
      · simp only [combInnerEv, h1, annSC_append, annSC, List.map_append, List.map_cons, List.map_nil]
        have : (annS done).length = ((annSC done).map (·.2)).length := by rw [← annSC_fst]; simp
        rw [this]
        exact lmInsert_at_length _ _ _
    | name i n =>
      obtain ⟨rfl, hd2⟩ := hd
      apply ih (done ++ [Ev.name _ n]) _
      · simpa [annS_append, annN_append, annS, annN] using hd2
      · simpa [annSC_append, annSC, combInnerEv] using h1

theorem combInnerFold_keepSrc : ∀ (evs : List Ev) (st : CombSt), (evs.foldl combInnerEv st).innerSource = st.innerSource := by
  intro evs
  induction evs with
  | nil => intro st; rfl
  | cons e es ih =>
    intro st
    simp only [List.foldl_cons]
    rw [ih]
    cases e <;> rfl

/-- the value tables after recording a stream that announces densely: exactly its announcements -/
theorem innerFold_vals : ∀ (evs done : List Ev) (st : CombSt), DeclOK (annS done).length (annN done).length evs →
    st.innerSourceIndexValueMapping.map (·.1) = annS done → st.innerNameIndexValueMapping = annN done →
    (evs.foldl combInnerEv st).innerSourceIndexValueMapping.map (·.1) = annS (done ++ evs)
    ∧ (evs.foldl combInnerEv st).innerNameIndexValueMapping = annN (done ++ evs) := by
  intro evs
  induction evs with
  | nil => intro done st _ h1 h2; simpa using ⟨h1, h2⟩
  | cons e es ih =>
    intro done st hd h1 h2
    simp only [List.foldl_cons]
    have hsplit : done ++ e :: es = (done ++ [e]) ++ es := by simp
    rw [hsplit]
    cases e with
    | chunk t m =>
      apply ih (done ++ [Ev.chunk t m]) _
      · simpa [annS_append, annN_append, annS, annN] using hd.2
      · simpa [annS_append, annS, combInnerEv] using h1
      · simpa [annN_append, annN, combInnerEv] using h2
    | source i s c =>
      obtain ⟨rfl, hd2⟩ := hd
      apply ih (done ++ [Ev.source _ s c]) _
      · simpa [annS_append, annN_append, annS, annN] using hd2
      · simp only [combInnerEv, lmInsert_map, h1, annS_append, annS]
        exact lmInsert_at_length _ _ _
      · simpa [annN_append, annN, combInnerEv] using h2
    | name i n =>
      obtain ⟨rfl, hd2⟩ := hd
      apply ih (done ++ [Ev.name _ n]) _
      · simpa [annS_append, annN_append, annS, annN] using hd2
      · simpa [annS_append, annS, combInnerEv] using h1
      · simp only [combInnerEv, h2, annN_append, annN]
        exact lmInsert_at_length _ _ _

/-- nothing recorded yet -/
def Fresh (st : CombSt) : Prop := st.lineData = [] ∧ st.innerSourceIndexValueMapping = [] ∧ st.innerNameIndexValueMapping = [] ∧ st.innerSourceContents = []

/-- the inner source is announced exactly once in a list of announcements -/
def OnceInner (n : Text) : List Ev → Prop
  | [] => False
  | .source _ s _ :: es => (s = n ∧ ∀ i s' c, Ev.source i s' c ∈ es → s' ≠ n) ∨ (s ≠ n ∧ OnceInner n es)
  | .name _ _ :: es => OnceInner n es
  | .chunk _ _ :: _ => False

theorem combEnd_stat_keep (cfg : CombCfg) : ∀ (evs : List Ev) (st : CombSt), (∀ e ∈ evs, e.isChunk = false) →
    (∀ i s c, Ev.source i s c ∈ evs → s ≠ cfg.innerName) → (combEnd cfg st evs).stat = st.stat := by
  intro evs
  induction evs with
  | nil => intro st _ _; rfl
  | cons e es ih =>
    intro st hc hn
    simp only [combEnd]
    rw [ih _ (fun x hx => hc x (List.mem_cons_of_mem _ hx)) (fun i s c hx => hn i s c (List.mem_cons_of_mem _ hx))]
    cases e with
    | chunk t m => have := hc _ (List.mem_cons_self); simp [Ev.isChunk] at this
    | source i s c =>
      simp only [combStep]
      exact combOnSource_stat cfg st i s c (by simpa using hn i s c (List.mem_cons_self))
    | name i n => rfl

/-- **after the outer announcements**: the recorded knowledge is what the inner map's stream (over the content of the inner source)
delivered; `k` is the outer index of the inner source and `c` the content announced for it -/
theorem combEnd_rec (cfg : CombCfg) (hI : MapIdxOK cfg.innerMap) : ∀ (evs : List Ev) (st : CombSt), Fresh st → (∀ e ∈ evs, e.isChunk = false) →
    OnceInner cfg.innerName evs →
    ∃ k c, Ev.source k cfg.innerName c ∈ evs ∧
      ((∀ m ∈ chunkMs (streamSM ((st.innerSource.or c).getD []) cfg.innerMap ⟨cfg.columns, false⟩).evs, 1 ≤ m.gl) →
        InnerRec (combEnd cfg st evs) k (streamSM ((st.innerSource.or c).getD []) cfg.innerMap ⟨cfg.columns, false⟩).evs (st.innerSource.or c)) := by
  intro evs
  induction evs with
  | nil => intro st _ _ h; exact absurd h (by simp [OnceInner])
  | cons e es ih =>
    intro st hf hnc ho
    have hnc' : ∀ e ∈ es, e.isChunk = false := fun x hx => hnc x (List.mem_cons_of_mem _ hx)
    cases e with
    | chunk t m => exact absurd ho (by simp [OnceInner])
    | name i n =>
      simp only [OnceInner] at ho
      obtain ⟨k, c, h1, h3⟩ := ih (combStep cfg st (.name i n)).1 (by simpa [combStep, combOnName, Fresh] using hf) hnc' ho
      exact ⟨k, c, List.mem_cons_of_mem _ h1, h3⟩
    | source i s c =>
      simp only [OnceInner] at ho
      rcases ho with ⟨hs, hrest⟩ | ⟨hs, hrest⟩
      · -- this is the announcement of the inner source
        subst hs
        refine ⟨i, c, List.mem_cons_self, fun hgl => ?_⟩
        simp only [combEnd]
        have hkeep := combEnd_stat_keep cfg es (combStep cfg st (.source i cfg.innerName c)).1 hnc' hrest
        apply innerRec_of_stat _ _ _ _ _ hkeep
        simp only [combStep, combOnSource, beq_self_eq_true, if_true]
        obtain ⟨f1, f2, f3, f4⟩ := hf
        have hd := streamSM_declOK ((st.innerSource.or c).getD []) cfg.innerMap ⟨cfg.columns, false⟩ hI
        refine ⟨?_, fun L hL => ?_, ?_, ?_, ?_, ?_, ?_⟩
        · rw [combInnerFold_keep]
        · rw [fold_segs _ _ L hL hgl]
          simp [segsAt, f1]
        · exact (innerFold_vals _ [] _ hd (by simp [f2, annS]) (by simp [f3, annN])).1
        · exact (innerFold_vals _ [] _ hd (by simp [f2, annS]) (by simp [f3, annN])).2
        · exact innerFold_pairs _ [] _ hd (by simp [f2, annSC])
        · rw [combInnerFold_keepSrc]
        · exact innerFold_conts _ [] _ hd (by simp [f4, annSC])
      · have hsb : (s == cfg.innerName) = false := by simpa using hs
        have hst := combOnSource_stat cfg st i s c hsb
        have hf' : Fresh (combStep cfg st (.source i s c)).1 := by
          simp only [combStep]
          simp only [CombSt.stat, Prod.mk.injEq] at hst
          exact ⟨hst.1.trans hf.1, hst.2.1.trans hf.2.1, hst.2.2.1.trans hf.2.2.1, hst.2.2.2.1.trans hf.2.2.2⟩
        obtain ⟨k, c', h1, h3⟩ := ih (combStep cfg st (.source i s c)).1 hf' hnc' hrest
        have hsrc : (combStep cfg st (.source i s c)).1.innerSource = st.innerSource := by
          simp only [combStep]
          simp only [CombSt.stat, Prod.mk.injEq] at hst
          exact hst.2.2.2.2.2
        rw [hsrc] at h3
        exact ⟨k, c', List.mem_cons_of_mem _ h1, h3⟩

/-! ### the search in terms of the inner map -/

/-- when the recorded line data is what the inner map's stream delivered: at the position of a character of the inner text the search
finds the recorded form of a mapping carrying exactly what the inner map assigns there, and a mapped segment only then -/
theorem findInner_innerMap (st : CombSt) (Tin : Text) (Min : SMap) (ha : IsAscii Tin) (hl : Tin.length ≤ USIZE_MAX)
    (hs : sortedFrom 1 0 (decode Min.mappings))
    (hsegok : ∀ x ∈ decode Min.mappings, SegOK (splitLines Tin) (adv startPos Tin).line (adv startPos Tin).col x)
    (hrec : ∀ L, 1 ≤ L → segsAt st.lineData L = ((chunkMs (streamSM Tin Min ⟨true, false⟩).evs).filter fun x => x.gl == L).map toSeg)
    (l c j : Nat) (hj : j < Tin.length) (hpos : adv startPos (Tin.take j) = ⟨l, c⟩) :
    (∀ o', lookupCols (decode Min.mappings) l c = some o' →
      ∃ idx mm', findInner st l c = some idx ∧ (st.lineData.getD (l - 1) {}).segs.getD idx default = toSeg mm' ∧ mm'.orig = some o')
    ∧ (lookupCols (decode Min.mappings) l c = none →
        ∀ idx, findInner st l c = some idx → ((st.lineData.getD (l - 1) {}).segs.getD idx default).src < 0) := by
  have hin : MapInside Tin Min := fun x hx => (hsegok x hx).1
  have hp : PosOK (streamSM Tin Min ⟨true, false⟩) := streamSM_posOK Tin Min true ha hl (fun _ => hin)
  have hTL := streamSM_tl Tin Min true
  have hsorted := chunkMs_sorted _ [] hp.1 hTL
  have hpw := ((sortedFrom_iff _ _ _).1 hsorted).2
  have hlk0 := streamSMFull_lookEq Tin Min ha hl hs hsegok j hj
  rw [hpos] at hlk0
  have hcm : lookupCols (chunkMs (streamSMFull Tin Min).evs) l c = lookupCols (decode Min.mappings) l c := hlk0
  simp only [streamSM] at hrec hpw
  have hL : 1 ≤ l := by
    have e1 : startPos.line = 1 := rfl
    have := adv_ge (Tin.take j) startPos
    rw [hpos] at this
    rcases this with g | g <;> simp only at g <;> omega
  have hlen : st.lineData.length < l → ((chunkMs (streamSMFull Tin Min).evs).filter fun x => x.gl == l) = [] := by
    intro hlt
    have := hrec l hL
    unfold segsAt at this
    rw [List.getD_eq_getElem?_getD, List.getElem?_eq_none (by omega)] at this
    simp only [Option.getD_none] at this
    exact List.map_eq_nil_iff.1 this.symm
  have hfind := findInner_lookup st (chunkMs (streamSMFull Tin Min).evs) hpw l c hL (hrec l hL) hlen
  constructor
  · intro o' ho'
    cases hf : findInner st l c with
    | none =>
      rw [hf] at hfind
      simp only at hfind
      have : lookupCols (chunkMs (streamSMFull Tin Min).evs) l c = none := by unfold lookupCols; rw [hfind]; rfl
      rw [← hcm, this] at ho'
      cases ho'
    | some idx =>
      rw [hf] at hfind
      obtain ⟨hidx, hsegeq, hlook⟩ := hfind
      have hlk : lookupCols (chunkMs (streamSMFull Tin Min).evs) l c
          = (((chunkMs (streamSMFull Tin Min).evs).filter fun x => x.gl == l).getD idx default).orig := by
        unfold lookupCols; rw [hlook]; rfl
      rw [← hcm, hlk] at ho'
      exact ⟨idx, _, rfl, hsegeq, ho'⟩
  · intro hnone idx hf
    rw [hf] at hfind
    obtain ⟨_, hsegeq, hlook⟩ := hfind
    have hlk : lookupCols (chunkMs (streamSMFull Tin Min).evs) l c
        = (((chunkMs (streamSMFull Tin Min).evs).filter fun x => x.gl == l).getD idx default).orig := by
      unfold lookupCols; rw [hlook]; rfl
    rw [← hcm, hlk] at hnone
    have hdefeq : (st.lineData.getD (l - 1) {}).segs.getD idx default
        = toSeg (((chunkMs (streamSMFull Tin Min).evs).filter fun x => x.gl == l).getD idx default) := hsegeq
    rw [hdefeq]
    simp only [toSeg, hnone]
    omega

/-! ### a stream of chunks, with the state at each chunk -/

theorem combFold_chunks (cfg : CombCfg) : ∀ (evs : List Ev) (st : CombSt) (S N OS : List Text), KInv cfg st S N OS →
    (∀ e ∈ evs, e.isChunk = true) → DeclOK OS.length st.nameIndexValueMapping.length evs →
    ∀ t' mm, Ev.chunk t' mm ∈ combFold cfg st evs →
      ∃ t m st' S0 N0, Ev.chunk t m ∈ evs ∧ KInv cfg st' S0 N0 OS ∧ st'.stat = st.stat ∧ st'.nameIndexValueMapping = st.nameIndexValueMapping
        ∧ Ev.chunk t' mm ∈ (combOnChunk cfg st' t m).2
        ∧ (S0 ++ annS (combOnChunk cfg st' t m).2) <+: (S ++ annS (combFold cfg st evs))
        ∧ (N0 ++ annN (combOnChunk cfg st' t m).2) <+: (N ++ annN (combFold cfg st evs)) := by
  intro evs
  induction evs with
  | nil => intro st S N OS _ _ _ t' mm h; simp [combFold] at h
  | cons e es ih =>
    intro st S N OS h hc hd t' mm hm
    have hc' : ∀ e ∈ es, e.isChunk = true := fun x hx => hc x (List.mem_cons_of_mem _ hx)
    cases e with
    | chunk text m =>
      simp only [combFold, combStep] at hm ⊢
      obtain ⟨a1, a2, a3, _⟩ := combOnChunk_ok cfg st S N OS h text m (fun o ho k hk => (hd.1 o ho).2 k hk)
      rcases List.mem_append.1 hm with hm | hm
      · refine ⟨text, m, st, S, N, by simp, h, rfl, rfl, hm, ?_, ?_⟩
        · rw [annS_append, ← List.append_assoc]; exact List.prefix_append _ _
        · rw [annN_append, ← List.append_assoc]; exact List.prefix_append _ _
      · obtain ⟨t, m', st', S0, N0, b1, b2, b3, b4, b5, b6, b7⟩ :=
          ih (combOnChunk cfg st text m).1 _ _ OS a2 hc' (by rw [a3]; exact hd.2) t' mm hm
        refine ⟨t, m', st', S0, N0, List.mem_cons_of_mem _ b1, b2, b3.trans (combOnChunk_stat cfg st text m), b4.trans a3, b5, ?_, ?_⟩
        · rw [annS_append, ← List.append_assoc]; exact b6
        · rw [annN_append, ← List.append_assoc]; exact b7
    | source i s c => have := hc _ (List.mem_cons_self); simp [Ev.isChunk] at this
    | name i n => have := hc _ (List.mem_cons_self); simp [Ev.isChunk] at this

/-- the table invariant at the end of a run -/
theorem combEnd_inv (cfg : CombCfg) (hI : MapIdxOK cfg.innerMap) : ∀ (evs : List Ev) (st : CombSt) (S N OS : List Text), KInv cfg st S N OS →
    DeclOK OS.length st.nameIndexValueMapping.length evs →
    KInv cfg (combEnd cfg st evs) (S ++ annS (combFold cfg st evs)) (N ++ annN (combFold cfg st evs)) (OS ++ annS evs)
    ∧ (combEnd cfg st evs).nameIndexValueMapping = st.nameIndexValueMapping ++ annN evs := by
  intro evs
  induction evs with
  | nil => intro st S N OS h _; simpa [combEnd, combFold, annS, annN] using h
  | cons e es ih =>
    intro st S N OS h hd
    simp only [combEnd, combFold]
    cases e with
    | chunk text m =>
      simp only [combStep]
      obtain ⟨a1, a2, a3, _⟩ := combOnChunk_ok cfg st S N OS h text m (fun o ho k hk => (hd.1 o ho).2 k hk)
      obtain ⟨i1, i2⟩ := ih _ _ _ OS a2 (by rw [a3]; exact hd.2)
      simp only [annS_append, annN_append, annS, annN, ← List.append_assoc]
      exact ⟨i1, by rw [i2, a3]⟩
    | source i s c =>
      obtain ⟨rfl, hd2⟩ := hd
      simp only [combStep]
      obtain ⟨a1, a2, a3, a4, a5⟩ := combOnSource_ok cfg hI st S N OS h s c
      obtain ⟨i1, i2⟩ := ih _ _ N (OS ++ [s]) a4 (by rw [a5, List.length_append]; exact hd2)
      simp only [annS_append, annN_append, annS, annN, a2, List.nil_append, ← List.append_assoc]
      refine ⟨by simpa using i1, by rw [i2, a5]⟩
    | name i n =>
      obtain ⟨rfl, hd2⟩ := hd
      simp only [combStep, List.nil_append]
      obtain ⟨a1, a2⟩ := combOnName_ok cfg st S N OS h n
      obtain ⟨i1, i2⟩ := ih _ S N OS a1 (by rw [a2, List.length_append]; exact hd2)
      simp only [annS, annN]
      exact ⟨i1, by rw [i2, a2]; simp⟩

theorem declOK_chunk_mem : ∀ (evs : List Ev) (ns nn : Nat), DeclOK ns nn evs → (∀ e ∈ evs, e.isChunk = true) →
    ∀ t m, Ev.chunk t m ∈ evs → ∀ o, m.orig = some o → o.src < ns ∧ ∀ k, o.name = some k → k < nn := by
  intro evs
  induction evs with
  | nil => intro ns nn _ _ t m h; simp at h
  | cons e es ih =>
    intro ns nn hd hc t m hm
    cases e with
    | chunk t0 m0 =>
      simp only [List.mem_cons, Ev.chunk.injEq] at hm
      rcases hm with ⟨rfl, rfl⟩ | hm
      · exact hd.1
      · exact ih ns nn hd.2 (fun x hx => hc x (List.mem_cons_of_mem _ hx)) t m hm
    | source i s c => have := hc _ (List.mem_cons_self); simp [Ev.isChunk] at this
    | name i n => have := hc _ (List.mem_cons_self); simp [Ev.isChunk] at this

theorem annS_mem (evs : List Ev) (j : Nat) (x : Text) (h : (annS evs)[j]? = some x) : ∃ i c, Ev.source i x c ∈ evs := by
  induction evs generalizing j with
  | nil => simp [annS] at h
  | cons e es ih =>
    cases e with
    | chunk t m => simp only [annS] at h; obtain ⟨i, c, hm⟩ := ih j h; exact ⟨i, c, List.mem_cons_of_mem _ hm⟩
    | name i n => simp only [annS] at h; obtain ⟨i', c, hm⟩ := ih j h; exact ⟨i', c, List.mem_cons_of_mem _ hm⟩
    | source i s c =>
      simp only [annS] at h
      cases j with
      | zero => simp only [List.getElem?_cons_zero, Option.some.injEq] at h; subst h; exact ⟨i, c, List.mem_cons_self⟩
      | succ j => simp only [List.getElem?_cons_succ] at h; obtain ⟨i', c', hm⟩ := ih j h; exact ⟨i', c', List.mem_cons_of_mem _ hm⟩

/-- a name announced once stands at one place of the announcement list -/
theorem onceInner_unique (n : Text) : ∀ (evs : List Ev), OnceInner n evs → ∀ (i j : Nat), (annS evs)[i]? = some n → (annS evs)[j]? = some n → i = j := by
  intro evs
  induction evs with
  | nil => intro h; exact absurd h (by simp [OnceInner])
  | cons e es ih =>
    intro h i j hi hj
    cases e with
    | chunk t m => exact absurd h (by simp [OnceInner])
    | name i0 n0 => simp only [OnceInner] at h; simp only [annS] at hi hj; exact ih h i j hi hj
    | source i0 s c =>
      simp only [OnceInner] at h
      simp only [annS] at hi hj
      rcases h with ⟨hs, hrest⟩ | ⟨hs, hrest⟩
      · have hno : ∀ q : Nat, (annS es)[q]? ≠ some n := by
          intro q hq
          obtain ⟨i', c', hm⟩ := annS_mem es q n hq
          exact hrest i' n c' hm rfl
        cases i with
        | zero =>
          cases j with
          | zero => rfl
          | succ j => simp only [List.getElem?_cons_succ] at hj; exact absurd hj (hno j)
        | succ i => simp only [List.getElem?_cons_succ] at hi; exact absurd hi (hno i)
      · cases i with
        | zero => simp only [List.getElem?_cons_zero, Option.some.injEq] at hi; exact absurd hi hs
        | succ i =>
          cases j with
          | zero => simp only [List.getElem?_cons_zero, Option.some.injEq] at hj; exact absurd hj hs
          | succ j =>
            simp only [List.getElem?_cons_succ] at hi hj
            rw [ih hrest i j hi hj]

theorem annN_chunks (evs : List Ev) (h : ∀ e ∈ evs, e.isChunk = true) : annN evs = [] := by
  induction evs with
  | nil => rfl
  | cons e es ih =>
    cases e with
    | chunk t m => simp only [annN]; exact ih (fun x hx => h x (List.mem_cons_of_mem _ hx))
    | source i s c => have := h _ (List.mem_cons_self); simp [Ev.isChunk] at this
    | name i n => have := h _ (List.mem_cons_self); simp [Ev.isChunk] at this

theorem annS_chunks (evs : List Ev) (h : ∀ e ∈ evs, e.isChunk = true) : annS evs = [] := by
  induction evs with
  | nil => rfl
  | cons e es ih =>
    cases e with
    | chunk t m => simp only [annS]; exact ih (fun x hx => h x (List.mem_cons_of_mem _ hx))
    | source i s c => have := h _ (List.mem_cons_self); simp [Ev.isChunk] at this
    | name i n => have := h _ (List.mem_cons_self); simp [Ev.isChunk] at this

/-! ### the whole stream -/

/-- **C09, composed chunks, whole stream (columns = true).**  `Tin` is the text the inner map is streamed over: the supplied original
source, else the content the outer map lists for the inner source.  Every chunk of the combined stream comes from one chunk of
the outer map's stream (same text, same generated position).  When that outer chunk points into the inner source at the position of
a character of `Tin`:
* if the inner map assigns `o'` to that position, a mapped delivered chunk names — through the combined stream's announcements — the
  file the *inner map's own stream* announces under `o'.src`, at `o'`'s line and at `o'`'s column or that column plus an offset
  smaller than the outer column;
* if the inner map assigns nothing there, the delivered chunk is unmapped when removal is requested, and otherwise names the inner
  source itself at the outer chunk's own line and column. -/
theorem streamCombined_compose (t : Text) (sm : SMap) (n : Text) (os : Option Text) (im : SMap) (rm : Bool) (Tin : Text)
    (h1 : MapIdxOK sm) (h2 : MapIdxOK im) (honce : OnceInner n (smSourceEvs sm ++ smNameEvs sm))
    (hTin : ∀ k c, Ev.source k n c ∈ smSourceEvs sm ++ smNameEvs sm → (os.or c).getD [] = Tin)
    (ha : IsAscii Tin) (hl : Tin.length ≤ USIZE_MAX) (hs : sortedFrom 1 0 (decode im.mappings))
    (hseg : ∀ x ∈ decode im.mappings, SegOK (splitLines Tin) (adv startPos Tin).line (adv startPos Tin).col x) :
    ∀ t' mm, Ev.chunk t' mm ∈ (streamCombined t sm n os im rm ⟨true, false⟩).evs →
      ∃ m, Ev.chunk t' m ∈ (streamSM t sm ⟨true, false⟩).evs ∧ mm.gl = m.gl ∧ mm.gc = m.gc ∧
        ∀ a, m.orig = some a → (annS (streamSM t sm ⟨true, false⟩).evs)[a.src]? = some n →
          ∀ j, j < Tin.length → adv startPos (Tin.take j) = ⟨a.line, a.col⟩ →
            (∀ o', lookupCols (decode im.mappings) a.line a.col = some o' → ∀ y, mm.orig = some y →
                (annS (streamCombined t sm n os im rm ⟨true, false⟩).evs)[y.src]? = (annS (streamSM Tin im ⟨true, false⟩).evs)[o'.src]?
                ∧ o'.src < (annS (streamSM Tin im ⟨true, false⟩).evs).length
                ∧ y.line = o'.line ∧ (y.col = o'.col ∨ ∃ g, g < a.col ∧ y.col = o'.col + (a.col - g)))
            ∧ (lookupCols (decode im.mappings) a.line a.col = none →
                (rm = true → mm.orig = none)
                ∧ ∀ y, mm.orig = some y → (annS (streamCombined t sm n os im rm ⟨true, false⟩).evs)[y.src]? = some n ∧ y.line = a.line ∧ y.col = a.col) := by
  intro t' mm hmem
  simp only [streamCombined] at hmem ⊢
  rcases streamSM_shape t sm false with ⟨e0, _⟩ | ⟨_, C, eN, cN⟩
  · rw [e0] at hmem; simp [combFold] at hmem
  · have hP : ∀ e ∈ smSourceEvs sm ++ smNameEvs sm, e.isChunk = false := by
      intro e he
      rcases List.mem_append.1 he with h | h
      · exact smSourceEvs_nochunk sm e h
      · exact smNameEvs_nochunk sm e h
    have hdecl := streamSM_declOK t sm ⟨true, false⟩ h1
    rw [eN] at hmem hdecl ⊢
    generalize hcfg : ({ genText := t, innerName := n, innerMap := im, remove := rm, columns := true } : CombCfg) = cfg at hmem ⊢
    have hcn : cfg.innerName = n := by rw [← hcfg]
    have hci : cfg.innerMap = im := by rw [← hcfg]
    have hcc : cfg.columns = true := by rw [← hcfg]
    have hcr : cfg.remove = rm := by rw [← hcfg]
    generalize hPdef : smSourceEvs sm ++ smNameEvs sm = P at *
    obtain ⟨dP, dC⟩ := (declOK_append P C 0 0).1 hdecl
    -- the state after the announcements
    obtain ⟨k1, k2⟩ := combEnd_inv cfg (by rw [hci]; exact h2) P { innerSource := os } [] [] [] (kinv_init cfg os) dP
    simp only [List.nil_append] at k1 k2
    obtain ⟨k, c, hkmem, hrec⟩ := combEnd_rec cfg (by rw [hci]; exact h2) P { innerSource := os } ⟨rfl, rfl, rfl, rfl⟩ hP (by rw [hcn]; exact honce)
    have hT : (os.or c).getD [] = Tin := hTin k c (by rw [hcn] at hkmem; exact hkmem)
    simp only at hrec
    rw [hT, hci, hcc] at hrec
    have hin : MapInside Tin im := fun x hx => (hseg x hx).1
    have hpI : PosOK (streamSM Tin im ⟨true, false⟩) := streamSM_posOK Tin im true ha hl (fun _ => hin)
    have hsI := chunkMs_sorted _ [] hpI.1 (streamSM_tl Tin im true)
    have hgl : ∀ m ∈ chunkMs (streamSM Tin im ⟨true, false⟩).evs, 1 ≤ m.gl := by
      intro m hm
      have := sortedFrom_all _ _ _ hsI m hm
      have e1 : (adv startPos ([] : Text)).line = 1 := rfl
      omega
    have hR := hrec hgl
    -- the chunk
    rw [combFold_append] at hmem
    rcases List.mem_append.1 hmem with hmem | hmem
    · exfalso
      have := mem_keys _ t' mm hmem
      rw [combFold_keys] at this
      unfold evsKeys at this
      obtain ⟨e, he, hk⟩ := List.mem_filterMap.1 this
      have := hP e he
      cases e with
      | chunk tt m0 => simp [Ev.isChunk] at this
      | source i s c => simp [Ev.key] at hk
      | name i nm => simp [Ev.key] at hk
    · generalize hst1 : combEnd cfg { innerSource := os } P = st1 at *
      have hdC : DeclOK (annS P).length st1.nameIndexValueMapping.length C := by
        rw [k2]
        simpa [annS_length, annN_length] using dC
      obtain ⟨tt, m, st', S0, N0, b1, b2, b3, b4, b5, b6, b7⟩ :=
        combFold_chunks cfg C st1 _ _ _ k1 cN hdC t' mm hmem
      have hR' := innerRec_of_stat st1 st' k _ _ b3 hR
      have hmdecl := declOK_chunk_mem C _ _ hdC cN tt m b1
      obtain ⟨sem1, sem2⟩ := combOnChunk_sem cfg st' S0 N0 (annS P) b2 tt m (fun o ho kk hk => by rw [b4]; exact (hmdecl o ho).2 kk hk)
      -- the delivered chunk has the outer chunk's text and position
      have hk := mem_keys _ t' mm b5
      rw [combOnChunk_keys] at hk
      simp only [List.mem_singleton, Prod.mk.injEq] at hk
      obtain ⟨rfl, hgl', hgc'⟩ := hk
      refine ⟨m, List.mem_append_right _ b1, hgl', hgc', ?_⟩
      intro a hmo hOS j hj hpos
      rw [annS_append, annS_chunks C cN, List.append_nil] at hOS
      -- the outer chunk points into the inner source
      have hisi : st'.innerSourceIndex = (k : Int) := hR'.isi
      have hkn : (annS P)[k]? = some n := by
        rcases b2.isi with h0 | ⟨_, h0⟩
        · rw [hisi] at h0; omega
        · rw [hisi, hcn] at h0; simpa using h0
      have hak : a.src = k := onceInner_unique n P honce a.src k hOS hkn
      have hsi : m.si = st'.innerSourceIndex := by rw [hisi]; simp [Mapping.si, hmo, hak]
      have hol : m.ol = (a.line : Int) := by simp [Mapping.ol, hmo]
      have hoc : m.oc = (a.col : Int) := by simp [Mapping.oc, hmo]
      have hsi' : m.si = (a.src : Int) := by simp [Mapping.si, hmo]
      obtain ⟨F1, F2⟩ := findInner_innerMap st' Tin im ha hl hs hseg hR'.segs a.line a.col j hj hpos
      -- the announcements of the whole combined stream
      have hfin : annS (combFold cfg { innerSource := os } (P ++ C)) = annS (combFold cfg { innerSource := os } P) ++ annS (combFold cfg st1 C) := by
        rw [combFold_append, annS_append, hst1]
      rw [hfin]
      have hol2 : m.ol.toNat - 1 = a.line - 1 := by rw [hol]; simp
      constructor
      · intro o' ho' y hy
        obtain ⟨idx, mm', hfi, hsegeq, hmm'⟩ := F1 o' ho'
        have hfi' : findInner st' m.ol m.oc = some idx := by rw [hol, hoc]; exact hfi
        have hsrc : ((st'.lineData.getD (m.ol.toNat - 1) {}).segs.getD idx default) = toSeg mm' := by rw [hol2]; exact hsegeq
        have hge : 0 ≤ ((st'.lineData.getD (m.ol.toNat - 1) {}).segs.getD idx default).src := by
          rw [hsrc]; simp only [toSeg, hmm']; omega
        have hf := sem1 idx hsi hfi' hge
        rw [hsrc] at hf
        obtain ⟨_, _, _, q⟩ := hf _ mm b5
        obtain ⟨q1, q2, q3, q4, _⟩ := q y hy
        simp only [toSeg, hmm', Int.toNat_natCast] at q1 q2 q3 q4
        rw [hR'.srcs] at q1
        have hlen : o'.src < (annS (streamSM Tin im ⟨true, false⟩).evs).length := by
          have := hR'.srcs
          have hl2 : (st'.innerSourceIndexValueMapping.map (·.1)).length = st'.innerSourceIndexValueMapping.length := by simp
          rw [this] at hl2
          omega
        refine ⟨?_, hlen, q3, ?_⟩
        · rw [List.getElem?_eq_getElem hlen] at q1 ⊢
          exact prefix_get _ _ b6 _ _ q1
        · rw [hoc] at q4
          rcases q4 with q4 | ⟨q4, q5⟩
          · exact Or.inl q4
          · exact Or.inr ⟨mm'.gc, by omega, by omega⟩
      · intro hnone
        have hno : m.si = st'.innerSourceIndex → ∀ idx, findInner st' m.ol m.oc = some idx →
            ((st'.lineData.getD (m.ol.toNat - 1) {}).segs.getD idx default).src < 0 := by
          intro _ idx hf
          rw [hol, hoc] at hf
          rw [hol2]
          exact F2 hnone idx hf
        obtain ⟨hpass, hrem⟩ := sem2 hno
        refine ⟨fun hr => hrem hsi (by rw [hcr]; exact hr) _ mm b5, fun y hy => ?_⟩
        obtain ⟨_, _, _, q⟩ := hpass _ mm b5
        obtain ⟨_, q2, _, q4, q5, _⟩ := q y hy
        rw [hsi'] at q2
        simp only [Int.toNat_natCast] at q2
        rw [hOS] at q2
        refine ⟨prefix_get _ _ b6 _ _ q2, ?_, ?_⟩
        · rw [hol] at q4; simpa using q4
        · rw [hoc] at q5; simpa using q5

/-- the original text of `len` bytes at (line, col) of a file given by its lines -/
def origTextAt (lines : List Text) (line col len : Nat) : Text :=
  if line = 0 then [] else match lines[line - 1]? with | some ln => csub ln col (col + len) | none => []

theorem combOrigName_toSeg (lines : List Text) (mm' : Mapping) (o' : Orig) (h : mm'.orig = some o') (ioc : Int) (len : Nat) :
    combOrigName lines (toSeg mm') ioc len = origTextAt lines o'.line ioc.toNat len := by
  unfold combOrigName origTextAt
  simp only [toSeg, h]
  by_cases h0 : o'.line = 0
  · simp [h0]
  · have : ¬ ((o'.line : Int) ≤ 0) := by omega
    simp only [this, h0, if_false, Int.toNat_natCast]
    split <;> rename_i heq <;> simp [heq]

/-- **C09, names of composed chunks, whole stream (columns = true).**  In the situation of `streamCombined_compose` with the inner
map assigning `o'`: a name the delivered chunk carries is — through the combined stream's announcements — the name the inner
map's own stream announces for `o'` (and then the column was not advanced), or the outer chunk's name, and the latter only if it
equals the original text, of the name's length, at the composed location in the content the inner map's stream announces for
`o'`'s file -/
theorem streamCombined_names (t : Text) (sm : SMap) (n : Text) (os : Option Text) (im : SMap) (rm : Bool) (Tin : Text)
    (h1 : MapIdxOK sm) (h2 : MapIdxOK im) (honce : OnceInner n (smSourceEvs sm ++ smNameEvs sm))
    (hTin : ∀ k c, Ev.source k n c ∈ smSourceEvs sm ++ smNameEvs sm → (os.or c).getD [] = Tin)
    (ha : IsAscii Tin) (hl : Tin.length ≤ USIZE_MAX) (hs : sortedFrom 1 0 (decode im.mappings))
    (hseg : ∀ x ∈ decode im.mappings, SegOK (splitLines Tin) (adv startPos Tin).line (adv startPos Tin).col x) :
    ∀ t' mm, Ev.chunk t' mm ∈ (streamCombined t sm n os im rm ⟨true, false⟩).evs →
      ∃ m, Ev.chunk t' m ∈ (streamSM t sm ⟨true, false⟩).evs ∧ mm.gl = m.gl ∧ mm.gc = m.gc ∧
        ∀ a, m.orig = some a → (annS (streamSM t sm ⟨true, false⟩).evs)[a.src]? = some n →
          ∀ j, j < Tin.length → adv startPos (Tin.take j) = ⟨a.line, a.col⟩ →
            ∀ o', lookupCols (decode im.mappings) a.line a.col = some o' → ∀ y, mm.orig = some y → ∀ k, y.name = some k →
              (∃ i, o'.name = some i ∧ y.col = o'.col
                  ∧ (annN (streamCombined t sm n os im rm ⟨true, false⟩).evs)[k]? = (annN (streamSM Tin im ⟨true, false⟩).evs)[i]?
                  ∧ i < (annN (streamSM Tin im ⟨true, false⟩).evs).length)
              ∨ (∃ i nm c, a.name = some i ∧ (annN (streamSM t sm ⟨true, false⟩).evs)[i]? = some nm
                  ∧ (annN (streamCombined t sm n os im rm ⟨true, false⟩).evs)[k]? = some nm
                  ∧ ((annSC (streamSM Tin im ⟨true, false⟩).evs)[o'.src]?).map (·.2) = some (some c)
                  ∧ nm = origTextAt (splitLines c) o'.line y.col nm.length) := by
  intro t' mm hmem
  simp only [streamCombined] at hmem ⊢
  rcases streamSM_shape t sm false with ⟨e0, _⟩ | ⟨_, C, eN, cN⟩
  · rw [e0] at hmem; simp [combFold] at hmem
  · have hP : ∀ e ∈ smSourceEvs sm ++ smNameEvs sm, e.isChunk = false := by
      intro e he
      rcases List.mem_append.1 he with h | h
      · exact smSourceEvs_nochunk sm e h
      · exact smNameEvs_nochunk sm e h
    have hdecl := streamSM_declOK t sm ⟨true, false⟩ h1
    rw [eN] at hmem hdecl ⊢
    generalize hcfg : ({ genText := t, innerName := n, innerMap := im, remove := rm, columns := true } : CombCfg) = cfg at hmem ⊢
    have hcn : cfg.innerName = n := by rw [← hcfg]
    have hci : cfg.innerMap = im := by rw [← hcfg]
    have hcc : cfg.columns = true := by rw [← hcfg]
    have hcr : cfg.remove = rm := by rw [← hcfg]
    generalize hPdef : smSourceEvs sm ++ smNameEvs sm = P at *
    obtain ⟨dP, dC⟩ := (declOK_append P C 0 0).1 hdecl
    -- the state after the announcements
    obtain ⟨k1, k2⟩ := combEnd_inv cfg (by rw [hci]; exact h2) P { innerSource := os } [] [] [] (kinv_init cfg os) dP
    simp only [List.nil_append] at k1 k2
    obtain ⟨k, c, hkmem, hrec⟩ := combEnd_rec cfg (by rw [hci]; exact h2) P { innerSource := os } ⟨rfl, rfl, rfl, rfl⟩ hP (by rw [hcn]; exact honce)
    have hT : (os.or c).getD [] = Tin := hTin k c (by rw [hcn] at hkmem; exact hkmem)
    simp only at hrec
    rw [hT, hci, hcc] at hrec
    have hin : MapInside Tin im := fun x hx => (hseg x hx).1
    have hpI : PosOK (streamSM Tin im ⟨true, false⟩) := streamSM_posOK Tin im true ha hl (fun _ => hin)
    have hsI := chunkMs_sorted _ [] hpI.1 (streamSM_tl Tin im true)
    have hgl : ∀ m ∈ chunkMs (streamSM Tin im ⟨true, false⟩).evs, 1 ≤ m.gl := by
      intro m hm
      have := sortedFrom_all _ _ _ hsI m hm
      have e1 : (adv startPos ([] : Text)).line = 1 := rfl
      omega
    have hR := hrec hgl
    -- the chunk
    rw [combFold_append] at hmem
    rcases List.mem_append.1 hmem with hmem | hmem
    · exfalso
      have := mem_keys _ t' mm hmem
      rw [combFold_keys] at this
      unfold evsKeys at this
      obtain ⟨e, he, hk⟩ := List.mem_filterMap.1 this
      have := hP e he
      cases e with
      | chunk tt m0 => simp [Ev.isChunk] at this
      | source i s c => simp [Ev.key] at hk
      | name i nm => simp [Ev.key] at hk
    · generalize hst1 : combEnd cfg { innerSource := os } P = st1 at *
      have hdC : DeclOK (annS P).length st1.nameIndexValueMapping.length C := by
        rw [k2]
        simpa [annS_length, annN_length] using dC
      obtain ⟨tt, m, st', S0, N0, b1, b2, b3, b4, b5, b6, b7⟩ :=
        combFold_chunks cfg C st1 _ _ _ k1 cN hdC t' mm hmem
      have hR' := innerRec_of_stat st1 st' k _ _ b3 hR
      have hmdecl := declOK_chunk_mem C _ _ hdC cN tt m b1
      obtain ⟨sem1, sem2⟩ := combOnChunk_sem cfg st' S0 N0 (annS P) b2 tt m (fun o ho kk hk => by rw [b4]; exact (hmdecl o ho).2 kk hk)
      -- the delivered chunk has the outer chunk's text and position
      have hk := mem_keys _ t' mm b5
      rw [combOnChunk_keys] at hk
      simp only [List.mem_singleton, Prod.mk.injEq] at hk
      obtain ⟨rfl, hgl', hgc'⟩ := hk
      refine ⟨m, List.mem_append_right _ b1, hgl', hgc', ?_⟩
      intro a hmo hOS j hj hpos
      rw [annS_append, annS_chunks C cN, List.append_nil] at hOS
      -- the outer chunk points into the inner source
      have hisi : st'.innerSourceIndex = (k : Int) := hR'.isi
      have hkn : (annS P)[k]? = some n := by
        rcases b2.isi with h0 | ⟨_, h0⟩
        · rw [hisi] at h0; omega
        · rw [hisi, hcn] at h0; simpa using h0
      have hak : a.src = k := onceInner_unique n P honce a.src k hOS hkn
      have hsi : m.si = st'.innerSourceIndex := by rw [hisi]; simp [Mapping.si, hmo, hak]
      have hol : m.ol = (a.line : Int) := by simp [Mapping.ol, hmo]
      have hoc : m.oc = (a.col : Int) := by simp [Mapping.oc, hmo]
      have hsi' : m.si = (a.src : Int) := by simp [Mapping.si, hmo]
      obtain ⟨F1, _⟩ := findInner_innerMap st' Tin im ha hl hs hseg hR'.segs a.line a.col j hj hpos
      have hfinN : annN (combFold cfg { innerSource := os } (P ++ C)) = annN (combFold cfg { innerSource := os } P) ++ annN (combFold cfg st1 C) := by
        rw [combFold_append, annN_append, hst1]
      rw [hfinN]
      have hol2 : m.ol.toNat - 1 = a.line - 1 := by rw [hol]; simp
      intro o' ho' y hy kk hkk
      obtain ⟨idx, mm', hfi, hsegeq, hmm'⟩ := F1 o' ho'
      have hfi' : findInner st' m.ol m.oc = some idx := by rw [hol, hoc]; exact hfi
      have hsrc : ((st'.lineData.getD (m.ol.toNat - 1) {}).segs.getD idx default) = toSeg mm' := by rw [hol2]; exact hsegeq
      have hge : 0 ≤ ((st'.lineData.getD (m.ol.toNat - 1) {}).segs.getD idx default).src := by
        rw [hsrc]; simp only [toSeg, hmm']; omega
      have hf := sem1 idx hsi hfi' hge
      rw [hsrc] at hf
      obtain ⟨_, _, _, q⟩ := hf _ mm b5
      obtain ⟨_, _, _, _, qn⟩ := q y hy
      have hannC : annN (P ++ C) = annN P := by
        rw [annN_append]
        have : annN C = [] := annN_chunks C cN
        rw [this, List.append_nil]
      rcases qn kk hkk with ⟨r0, r1, r2, r3⟩ | ⟨r0, r2, r3, ioc, r4, lines, r5, r6⟩
      · -- the inner segment's name
        left
        simp only [toSeg, hmm'] at r0 r1 r2 r3
        cases hon : o'.name with
        | none => rw [hon] at r0; simp only at r0; omega
        | some i =>
          rw [hon] at r2 r3
          simp only [Int.toNat_natCast] at r1 r2 r3
          rw [hR'.names] at r2 r3
          refine ⟨i, rfl, r1, ?_, r3⟩
          rw [List.getElem?_eq_getElem r3] at r2 ⊢
          exact prefix_get _ _ b7 _ _ r2
      · -- the outer chunk's name, matching the original text
        right
        cases han : a.name with
        | none =>
          have hni : m.ni = -1 := by simp [Mapping.ni, hmo, han]
          omega
        | some i =>
          have hni : m.ni = (i : Int) := by simp [Mapping.ni, hmo, han]
          rw [hni] at r2 r3 r6
          simp only [Int.toNat_natCast] at r2 r3 r6
          rw [b4, k2] at r2 r3 r6
          have hnm : (annN P)[i]? = some (annN P)[i] := List.getElem?_eq_getElem r3
          have hgetD : (annN P).getD i [] = (annN P)[i] := by rw [List.getD_eq_getElem?_getD, hnm]; rfl
          rw [hnm] at r2
          rw [hgetD] at r6
          -- the content of the inner file
          unfold innerContentLines at r5
          simp only [toSeg, hmm', Int.toNat_natCast] at r5
          rw [hR'.conts] at r5
          cases hc : ((annSC (streamSM Tin im ⟨true, false⟩).evs).map (·.2))[o'.src]? with
          | none => rw [hc] at r5; simp at r5
          | some oc =>
            rw [hc] at r5
            cases oc with
            | none => simp at r5
            | some c =>
              simp only [Option.some.injEq] at r5
              subst r5
              refine ⟨i, (annN P)[i], c, rfl, by rw [hannC]; exact hnm, prefix_get _ _ b7 _ _ r2, by rw [List.getElem?_map] at hc; exact hc, ?_⟩
              rw [combOrigName_toSeg _ mm' o' hmm'] at r6
              rw [r4]
              exact r6

/-! ### the contents reported -/

theorem globalName_noSource (nm : Assoc) (n : Text) : ∀ i s c, Ev.source i s c ∉ (globalName nm n).2.1 := by
  intro i s c h
  unfold globalName at h
  split at h <;> simp at h

theorem combPass_noSource (st : CombSt) (chunk : Option Text) (m : Mapping) (a b c d : Int) : ∀ i s cc, Ev.source i s cc ∉ (combPass st chunk m a b c d).2 := by
  intro i s cc h
  have hk : evsKeys (combPass st chunk m a b c d).2 = [(chunk, m.gl, m.gc)] := combPass_keys st chunk m a b c d
  unfold combPass at h
  dsimp only at h
  generalize (if a < 0 then (-1 : Int) else (st.sourceIndexMapping[a.toNat]?).getD (-1)) = v at h
  by_cases hneg : v < 0
  · simp only [hneg, if_true] at h; simp at h
  · simp only [hneg, if_false] at h
    generalize (if d ≥ 0 then (st.nameIndexMapping[d.toNat]?).getD (-1) else (-1 : Int)) = f0 at h
    by_cases hf : f0 = -2
    · subst hf
      simp only [beq_self_eq_true, if_true] at h
      rcases List.mem_append.1 h with h | h
      · exact globalName_noSource _ _ i s cc h
      · simp at h
    · have hfb : (f0 == -2) = false := by simpa using hf
      simp only [hfb, Bool.false_eq_true, if_false] at h
      simp at h

theorem combNoInner_sources (cfg : CombCfg) (st : CombSt) (chunk : Option Text) (m : Mapping) (a b c d : Int) :
    ∀ i s cc, Ev.source i s cc ∈ (combNoInner cfg st chunk m a b c d).2 → s = cfg.innerName ∧ cc = st.innerSource := by
  intro i s cc h
  unfold combNoInner at h
  split at h
  · simp at h
  · split at h
    · split at h
      · exact absurd h (combPass_noSource _ _ _ _ _ _ _ i s cc)
      · simp only [List.mem_cons, Ev.source.injEq] at h
        rcases h with ⟨_, rfl, rfl⟩ | h
        · exact ⟨rfl, rfl⟩
        · exact absurd h (combPass_noSource _ _ _ _ _ _ _ i s cc)
    · exact absurd h (combPass_noSource _ _ _ _ _ _ _ i s cc)

theorem combSrcResolve_sources (st : CombSt) (isi : Nat) (hisi : isi < st.innerSourceIndexValueMapping.length) :
    ∀ i s cc, Ev.source i s cc ∈ (combSrcResolve st isi).2.1 → (s, cc) ∈ st.innerSourceIndexValueMapping := by
  intro i s cc h
  unfold combSrcResolve at h
  dsimp only at h
  split at h
  · unfold globalSource at h
    split at h
    · simp at h
    · simp only [List.mem_singleton, Ev.source.injEq] at h
      obtain ⟨_, rfl, rfl⟩ := h
      rw [List.getElem?_eq_getElem hisi]
      exact List.getElem_mem hisi
  · simp at h

theorem combNameResolve_noSource (st : CombSt) (isi : Nat) (seg : InnerSeg) (a b c : Int) :
    ∀ i s cc, Ev.source i s cc ∉ (combNameResolve st isi seg a b c).2.1 := by
  intro i s cc h
  unfold combNameResolve at h
  simp only at h
  repeat' split at h
  all_goals first
    | exact globalName_noSource _ _ i s cc h
    | (simp at h; done)

theorem combFound_sources (st : CombSt) (chunk : Option Text) (m : Mapping) (seg : InnerSeg) (ic : Text) (a b : Int)
    (hisi : seg.src.toNat < st.innerSourceIndexValueMapping.length) :
    ∀ i s cc, Ev.source i s cc ∈ (combFound st chunk m seg ic a b).2 → (s, cc) ∈ st.innerSourceIndexValueMapping := by
  intro i s cc h
  unfold combFound at h
  dsimp only at h
  rcases List.mem_append.1 h with h | h
  · rcases List.mem_append.1 h with h | h
    · exact combSrcResolve_sources st _ hisi i s cc h
    · exact absurd h (combNameResolve_noSource _ _ _ _ _ _ i s cc)
  · simp at h

/-- the files a chunk may make the combinator announce: the inner source itself (with the content kept for it), or a file of the
inner map (with the content the inner map's stream announced) -/
theorem combOnChunk_sources (cfg : CombCfg) (st : CombSt) (S N OS : List Text) (h : KInv cfg st S N OS) (chunk : Option Text) (m : Mapping) :
    ∀ i s cc, Ev.source i s cc ∈ (combOnChunk cfg st chunk m).2 →
      (s = cfg.innerName ∧ cc = st.innerSource) ∨ (s, cc) ∈ st.innerSourceIndexValueMapping := by
  intro i s cc hm
  rw [combOnChunk_eq] at hm
  unfold combOnChunkI at hm
  split at hm
  · split at hm
    · exact Or.inl (combNoInner_sources cfg st chunk m _ _ _ _ i s cc hm)
    · rename_i idx hfi
      split at hm
      · rename_i hge
        obtain ⟨f1, f2⟩ := findInner_mem st m.ol m.oc idx hfi
        obtain ⟨g1, _⟩ := h.segs _ f1 _ f2
        have hlen : st.innerSourceIndexMapping.length = st.innerSourceIndexValueMapping.length := by
          have := h.isim.1; simpa using this
        exact Or.inr (combFound_sources st chunk m _ _ _ _ (by omega) i s cc hm)
      · exact Or.inl (combNoInner_sources cfg st chunk m _ _ _ _ i s cc hm)
  · exact absurd hm (combPass_noSource _ _ _ _ _ _ _ i s cc)

theorem combFold_chunks_sources (cfg : CombCfg) : ∀ (evs : List Ev) (st : CombSt) (S N OS : List Text), KInv cfg st S N OS →
    (∀ e ∈ evs, e.isChunk = true) → DeclOK OS.length st.nameIndexValueMapping.length evs →
    ∀ i s cc, Ev.source i s cc ∈ combFold cfg st evs →
      (s = cfg.innerName ∧ cc = st.innerSource) ∨ (s, cc) ∈ st.innerSourceIndexValueMapping := by
  intro evs
  induction evs with
  | nil => intro st S N OS _ _ _ i s cc h; simp [combFold] at h
  | cons e es ih =>
    intro st S N OS h hc hd i s cc hm
    have hc' : ∀ e ∈ es, e.isChunk = true := fun x hx => hc x (List.mem_cons_of_mem _ hx)
    cases e with
    | chunk text m =>
      simp only [combFold, combStep] at hm
      obtain ⟨a1, a2, a3, _⟩ := combOnChunk_ok cfg st S N OS h text m (fun o ho k hk => (hd.1 o ho).2 k hk)
      rcases List.mem_append.1 hm with hm | hm
      · exact combOnChunk_sources cfg st S N OS h text m i s cc hm
      · have hst := combOnChunk_stat cfg st text m
        simp only [CombSt.stat, Prod.mk.injEq] at hst
        have := ih (combOnChunk cfg st text m).1 _ _ OS a2 hc' (by rw [a3]; exact hd.2) i s cc hm
        rw [hst.2.1, hst.2.2.2.2.2] at this
        exact this
    | source i0 s0 c0 => have := hc _ (List.mem_cons_self); simp [Ev.isChunk] at this
    | name i0 n0 => have := hc _ (List.mem_cons_self); simp [Ev.isChunk] at this

theorem combFold_ann_sources (cfg : CombCfg) : ∀ (evs : List Ev) (st : CombSt), (∀ e ∈ evs, e.isChunk = false) →
    ∀ i s cc, Ev.source i s cc ∈ combFold cfg st evs → ∃ j, Ev.source j s cc ∈ evs ∧ s ≠ cfg.innerName := by
  intro evs
  induction evs with
  | nil => intro st _ i s cc h; simp [combFold] at h
  | cons e es ih =>
    intro st hc i s cc hm
    have hc' : ∀ e ∈ es, e.isChunk = false := fun x hx => hc x (List.mem_cons_of_mem _ hx)
    simp only [combFold] at hm
    rcases List.mem_append.1 hm with hm | hm
    · cases e with
      | chunk t m => have := hc _ (List.mem_cons_self); simp [Ev.isChunk] at this
      | name i0 n0 => simp [combStep] at hm
      | source i0 s0 c0 =>
        simp only [combStep] at hm
        unfold combOnSource at hm
        split at hm
        · simp at hm
        · rename_i hne
          unfold globalSource at hm
          split at hm
          · simp at hm
          · simp only [List.mem_singleton, Ev.source.injEq] at hm
            obtain ⟨_, rfl, rfl⟩ := hm
            exact ⟨i0, List.mem_cons_self, by simpa using hne⟩
    · obtain ⟨j, h1, h2⟩ := ih _ hc' i s cc hm
      exact ⟨j, List.mem_cons_of_mem _ h1, h2⟩

/-- **C09, contents.**  Every file the combined stream reports carries a matching content: it is a file of the outer map other than
the inner source, with the content the outer map's stream announces for it; or the inner source itself, with the supplied original
source (else the content the outer map lists for it); or a file of the inner map, with the content the inner map's own stream
announces (its `sourcesContent`) -/
theorem streamCombined_contents (t : Text) (sm : SMap) (n : Text) (os : Option Text) (im : SMap) (rm : Bool) (Tin : Text)
    (h1 : MapIdxOK sm) (h2 : MapIdxOK im) (honce : OnceInner n (smSourceEvs sm ++ smNameEvs sm))
    (hTin : ∀ k c, Ev.source k n c ∈ smSourceEvs sm ++ smNameEvs sm → (os.or c).getD [] = Tin)
    (ha : IsAscii Tin) (hl : Tin.length ≤ USIZE_MAX) (hseg : MapInside Tin im) :
    ∀ i s cc, Ev.source i s cc ∈ (streamCombined t sm n os im rm ⟨true, false⟩).evs →
      (∃ j, Ev.source j s cc ∈ (streamSM t sm ⟨true, false⟩).evs ∧ s ≠ n)
      ∨ (s = n ∧ ∃ k c, Ev.source k n c ∈ (streamSM t sm ⟨true, false⟩).evs ∧ cc = os.or c)
      ∨ (∃ j, Ev.source j s cc ∈ (streamSM Tin im ⟨true, false⟩).evs) := by
  intro i s cc hmem
  simp only [streamCombined] at hmem
  rcases streamSM_shape t sm false with ⟨e0, _⟩ | ⟨_, C, eN, cN⟩
  · rw [e0] at hmem; simp [combFold] at hmem
  · have hP : ∀ e ∈ smSourceEvs sm ++ smNameEvs sm, e.isChunk = false := by
      intro e he
      rcases List.mem_append.1 he with h | h
      · exact smSourceEvs_nochunk sm e h
      · exact smNameEvs_nochunk sm e h
    have hdecl := streamSM_declOK t sm ⟨true, false⟩ h1
    rw [eN] at hmem hdecl ⊢
    generalize hcfg : ({ genText := t, innerName := n, innerMap := im, remove := rm, columns := true } : CombCfg) = cfg at hmem
    have hcn : cfg.innerName = n := by rw [← hcfg]
    have hci : cfg.innerMap = im := by rw [← hcfg]
    have hcc : cfg.columns = true := by rw [← hcfg]
    generalize hPdef : smSourceEvs sm ++ smNameEvs sm = P at *
    obtain ⟨dP, dC⟩ := (declOK_append P C 0 0).1 hdecl
    obtain ⟨k1, k2⟩ := combEnd_inv cfg (by rw [hci]; exact h2) P { innerSource := os } [] [] [] (kinv_init cfg os) dP
    simp only [List.nil_append] at k1 k2
    obtain ⟨k, c, hkmem, hrec⟩ := combEnd_rec cfg (by rw [hci]; exact h2) P { innerSource := os } ⟨rfl, rfl, rfl, rfl⟩ hP (by rw [hcn]; exact honce)
    have hT : (os.or c).getD [] = Tin := hTin k c (by rw [hcn] at hkmem; exact hkmem)
    simp only at hrec
    rw [hT, hci, hcc] at hrec
    have hpI : PosOK (streamSM Tin im ⟨true, false⟩) := streamSM_posOK Tin im true ha hl (fun _ => hseg)
    have hsI := chunkMs_sorted _ [] hpI.1 (streamSM_tl Tin im true)
    have hgl : ∀ m ∈ chunkMs (streamSM Tin im ⟨true, false⟩).evs, 1 ≤ m.gl := by
      intro m hm
      have := sortedFrom_all _ _ _ hsI m hm
      have e1 : (adv startPos ([] : Text)).line = 1 := rfl
      omega
    have hR := hrec hgl
    rw [combFold_append] at hmem
    rcases List.mem_append.1 hmem with hmem | hmem
    · obtain ⟨j, j1, j2⟩ := combFold_ann_sources cfg P _ hP i s cc hmem
      exact Or.inl ⟨j, List.mem_append_left _ j1, by rw [← hcn]; exact j2⟩
    · generalize hst1 : combEnd cfg { innerSource := os } P = st1 at *
      have hdC : DeclOK (annS P).length st1.nameIndexValueMapping.length C := by
        rw [k2]
        simpa [annS_length, annN_length] using dC
      rcases combFold_chunks_sources cfg C st1 _ _ _ k1 cN hdC i s cc hmem with ⟨q1, q2⟩ | q
      · refine Or.inr (Or.inl ⟨by rw [q1, hcn], k, c, List.mem_append_left _ (by rw [hcn] at hkmem; exact hkmem), ?_⟩)
        rw [q2, hR.isrc]
      · rw [hR.pairs] at q
        obtain ⟨j, hj⟩ := annSC_mem _ s cc q
        exact Or.inr (Or.inr ⟨j, hj⟩)

/-! ### the state at a delivered chunk, for either column setting -/

/-- every chunk the combinator delivers, with the state in which it was produced: the table invariant, the recorded knowledge about the
inner map, and how the tables at that moment sit inside the final ones -/
theorem comb_chunk_at (cfg : CombCfg) (hI : MapIdxOK cfg.innerMap) (os : Option Text) (P C : List Ev) (Tin : Text)
    (hP : ∀ e ∈ P, e.isChunk = false) (cN : ∀ e ∈ C, e.isChunk = true) (hdecl : DeclOK 0 0 (P ++ C))
    (honce : OnceInner cfg.innerName P) (hTin : ∀ k c, Ev.source k cfg.innerName c ∈ P → (os.or c).getD [] = Tin)
    (hgl : ∀ m ∈ chunkMs (streamSM Tin cfg.innerMap ⟨cfg.columns, false⟩).evs, 1 ≤ m.gl) :
    ∀ t' mm, Ev.chunk t' mm ∈ combFold cfg { innerSource := os } (P ++ C) →
      ∃ m st' S0 N0 k c, Ev.chunk t' m ∈ C ∧ mm.gl = m.gl ∧ mm.gc = m.gc
        ∧ KInv cfg st' S0 N0 (annS P) ∧ InnerRec st' k (streamSM Tin cfg.innerMap ⟨cfg.columns, false⟩).evs (os.or c)
        ∧ st'.nameIndexValueMapping = annN P
        ∧ (annS P)[k]? = some cfg.innerName
        ∧ Ev.chunk t' mm ∈ (combOnChunk cfg st' t' m).2
        ∧ (S0 ++ annS (combOnChunk cfg st' t' m).2) <+: annS (combFold cfg { innerSource := os } (P ++ C))
        ∧ (N0 ++ annN (combOnChunk cfg st' t' m).2) <+: annN (combFold cfg { innerSource := os } (P ++ C))
        ∧ (∀ o, m.orig = some o → ∀ kk, o.name = some kk → kk < st'.nameIndexValueMapping.length) := by
  intro t' mm hmem
  obtain ⟨dP, dC⟩ := (declOK_append P C 0 0).1 hdecl
  obtain ⟨k1, k2⟩ := combEnd_inv cfg hI P { innerSource := os } [] [] [] (kinv_init cfg os) dP
  simp only [List.nil_append] at k1 k2
  obtain ⟨k, c, hkmem, hrec⟩ := combEnd_rec cfg hI P { innerSource := os } ⟨rfl, rfl, rfl, rfl⟩ hP honce
  have hT : (os.or c).getD [] = Tin := hTin k c hkmem
  simp only at hrec
  rw [hT] at hrec
  have hR := hrec hgl
  have hfinS : annS (combFold cfg { innerSource := os } (P ++ C)) = annS (combFold cfg { innerSource := os } P) ++ annS (combFold cfg (combEnd cfg { innerSource := os } P) C) := by
    rw [combFold_append, annS_append]
  have hfinN : annN (combFold cfg { innerSource := os } (P ++ C)) = annN (combFold cfg { innerSource := os } P) ++ annN (combFold cfg (combEnd cfg { innerSource := os } P) C) := by
    rw [combFold_append, annN_append]
  rw [hfinS, hfinN]
  rw [combFold_append] at hmem
  rcases List.mem_append.1 hmem with hmem | hmem
  · exfalso
    have := mem_keys _ t' mm hmem
    rw [combFold_keys] at this
    unfold evsKeys at this
    obtain ⟨e, he, hk⟩ := List.mem_filterMap.1 this
    have := hP e he
    cases e with
    | chunk tt m0 => simp [Ev.isChunk] at this
    | source i s c => simp [Ev.key] at hk
    | name i nm => simp [Ev.key] at hk
  · generalize hst1 : combEnd cfg { innerSource := os } P = st1 at *
    have hdC : DeclOK (annS P).length st1.nameIndexValueMapping.length C := by
      rw [k2]
      simpa [annS_length, annN_length] using dC
    obtain ⟨tt, m, st', S0, N0, b1, b2, b3, b4, b5, b6, b7⟩ :=
      combFold_chunks cfg C st1 _ _ _ k1 cN hdC t' mm hmem
    have hR' := innerRec_of_stat st1 st' k _ _ b3 hR
    have hmdecl := declOK_chunk_mem C _ _ hdC cN tt m b1
    have hk := mem_keys _ t' mm b5
    rw [combOnChunk_keys] at hk
    simp only [List.mem_singleton, Prod.mk.injEq] at hk
    obtain ⟨rfl, hgl', hgc'⟩ := hk
    have hisi : st'.innerSourceIndex = (k : Int) := hR'.isi
    have hkn : (annS P)[k]? = some cfg.innerName := by
      rcases b2.isi with h0 | ⟨_, h0⟩
      · rw [hisi] at h0; omega
      · rw [hisi] at h0; simpa using h0
    exact ⟨m, st', S0, N0, k, c, b1, hgl', hgc', b2, hR', by rw [b4, k2], hkn, b5, b6, b7,
      fun o ho kk hkk => by rw [b4]; exact (hmdecl o ho).2 kk hkk⟩

/-- the files the combinator reports, for either column setting -/
theorem comb_sources_at (cfg : CombCfg) (hI : MapIdxOK cfg.innerMap) (os : Option Text) (P C : List Ev) (Tin : Text)
    (hP : ∀ e ∈ P, e.isChunk = false) (cN : ∀ e ∈ C, e.isChunk = true) (hdecl : DeclOK 0 0 (P ++ C))
    (honce : OnceInner cfg.innerName P) (hTin : ∀ k c, Ev.source k cfg.innerName c ∈ P → (os.or c).getD [] = Tin)
    (hgl : ∀ m ∈ chunkMs (streamSM Tin cfg.innerMap ⟨cfg.columns, false⟩).evs, 1 ≤ m.gl) :
    ∀ i s cc, Ev.source i s cc ∈ combFold cfg { innerSource := os } (P ++ C) →
      (∃ j, Ev.source j s cc ∈ P ∧ s ≠ cfg.innerName)
      ∨ (s = cfg.innerName ∧ ∃ k c, Ev.source k cfg.innerName c ∈ P ∧ cc = os.or c)
      ∨ (∃ j, Ev.source j s cc ∈ (streamSM Tin cfg.innerMap ⟨cfg.columns, false⟩).evs) := by
  intro i s cc hmem
  obtain ⟨dP, dC⟩ := (declOK_append P C 0 0).1 hdecl
  obtain ⟨k1, k2⟩ := combEnd_inv cfg hI P { innerSource := os } [] [] [] (kinv_init cfg os) dP
  simp only [List.nil_append] at k1 k2
  obtain ⟨k, c, hkmem, hrec⟩ := combEnd_rec cfg hI P { innerSource := os } ⟨rfl, rfl, rfl, rfl⟩ hP honce
  have hT : (os.or c).getD [] = Tin := hTin k c hkmem
  simp only at hrec
  rw [hT] at hrec
  have hR := hrec hgl
  rw [combFold_append] at hmem
  rcases List.mem_append.1 hmem with hmem | hmem
  · obtain ⟨j, j1, j2⟩ := combFold_ann_sources cfg P _ hP i s cc hmem
    exact Or.inl ⟨j, j1, j2⟩
  · generalize hst1 : combEnd cfg { innerSource := os } P = st1 at *
    have hdC : DeclOK (annS P).length st1.nameIndexValueMapping.length C := by
      rw [k2]
      simpa [annS_length, annN_length] using dC
    rcases combFold_chunks_sources cfg C st1 _ _ _ k1 cN hdC i s cc hmem with ⟨q1, q2⟩ | q
    · exact Or.inr (Or.inl ⟨q1, k, c, hkmem, by rw [q2, hR.isrc]⟩)
    · rw [hR.pairs] at q
      obtain ⟨j, hj⟩ := annSC_mem _ s cc q
      exact Or.inr (Or.inr ⟨j, hj⟩)

end Rs
