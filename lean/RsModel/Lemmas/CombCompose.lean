import RsModel.Lemmas.CombModes
/-!
# C09: composed chunks, for the whole stream, in terms of the inner map

What the combinator knows about the inner map — the per-line segment data, the inner source / name value tables, the inner
source contents and the index of the inner source among the outer sources — is written when the inner source is announced and
never afterwards (`CombSt.stat`).  After the announcements of the outer stream it is exactly what the inner map's own stream
delivered.  With the table invariant `KInv` and the search lemma this turns the per-chunk composition into a statement about
the whole stream in terms of lookups in the inner map.
-/
namespace Rs

/-- the part of the state that only an announcement of the inner source changes -/
def CombSt.stat (st : CombSt) : List LineData × List (Text × Option Text) × List Text × List (Option Text) × Int × Option Text :=
  (st.lineData, st.innerSourceIndexValueMapping, st.innerNameIndexValueMapping, st.innerSourceContents, st.innerSourceIndex, st.innerSource)

theorem combPass_stat (st : CombSt) (chunk : Option Text) (m : Mapping) (a b c d : Int) : (combPass st chunk m a b c d).1.stat = st.stat := by
  unfold combPass
  simp only
  repeat' split
  all_goals rfl

theorem combNoInner_stat (cfg : CombCfg) (st : CombSt) (chunk : Option Text) (m : Mapping) (a b c d : Int) :
    (combNoInner cfg st chunk m a b c d).1.stat = st.stat := by
  unfold combNoInner
  split
  · rfl
  · split
    · split
      · rw [combPass_stat]; rfl
      · simp only; rw [combPass_stat]; rfl
    · exact combPass_stat _ _ _ _ _ _ _

theorem combSrcResolve_stat (st : CombSt) (isi : Nat) : (combSrcResolve st isi).1.stat = st.stat := by
  unfold combSrcResolve; dsimp only; split <;> rfl

theorem combNameResolve_stat (st : CombSt) (isi : Nat) (seg : InnerSeg) (a b c : Int) :
    (combNameResolve st isi seg a b c).1.stat = st.stat := by
  unfold combNameResolve
  simp only
  repeat' split
  all_goals rfl

theorem combFound_stat (st : CombSt) (chunk : Option Text) (m : Mapping) (seg : InnerSeg) (ic : Text) (a b : Int) :
    (combFound st chunk m seg ic a b).1.stat = st.stat := by
  unfold combFound
  dsimp only
  rw [combNameResolve_stat, combSrcResolve_stat]

theorem combOnChunk_stat (cfg : CombCfg) (st : CombSt) (chunk : Option Text) (m : Mapping) : (combOnChunk cfg st chunk m).1.stat = st.stat := by
  rw [combOnChunk_eq]
  unfold combOnChunkI
  split
  · split
    · exact combNoInner_stat _ _ _ _ _ _ _ _
    · split
      · exact combFound_stat _ _ _ _ _ _ _
      · exact combNoInner_stat _ _ _ _ _ _ _ _
  · exact combPass_stat _ _ _ _ _ _ _

theorem combOnName_stat (st : CombSt) (i : Nat) (n : Text) : (combOnName st i n).stat = st.stat := rfl

theorem combOnSource_stat (cfg : CombCfg) (st : CombSt) (i : Nat) (s : Text) (c : Option Text) (h : (s == cfg.innerName) = false) :
    (combOnSource cfg st i s c).1.stat = st.stat := by
  unfold combOnSource
  simp only [h, Bool.false_eq_true, if_false]
  rfl

/-! ### what is recorded when the inner source is announced -/

/-- the recorded knowledge about the inner map: index of the inner source among the outer sources, per-line segments, value tables -/
structure InnerRec (st : CombSt) (k : Nat) (innerEvs : List Ev) : Prop where
  isi : st.innerSourceIndex = k
  segs : ∀ L, 1 ≤ L → segsAt st.lineData L = ((chunkMs innerEvs).filter fun m => m.gl == L).map toSeg
  srcs : st.innerSourceIndexValueMapping.map (·.1) = annS innerEvs
  names : st.innerNameIndexValueMapping = annN innerEvs

theorem innerRec_of_stat (st st' : CombSt) (k : Nat) (E : List Ev) (h : st'.stat = st.stat) (r : InnerRec st k E) : InnerRec st' k E := by
  simp only [CombSt.stat, Prod.mk.injEq] at h
  obtain ⟨h1, h2, h3, _, h5, _⟩ := h
  exact ⟨by rw [h5]; exact r.isi, fun L hL => by rw [h1]; exact r.segs L hL, by rw [h2]; exact r.srcs, by rw [h3]; exact r.names⟩

/-- the value tables after recording a stream that announces densely: exactly its announcements -/
theorem innerFold_vals : ∀ (evs done : List Ev) (st : CombSt), DeclOK (annS done).length (annN done).length evs →
    st.innerSourceIndexValueMapping.map (·.1) = annS done → st.innerNameIndexValueMapping = annN done →
    (evs.foldl combInnerEv st).innerSourceIndexValueMapping.map (·.1) = annS (done ++ evs)
    ∧ (evs.foldl combInnerEv st).innerNameIndexValueMapping = annN (done ++ evs) := by
  intro evs
  induction evs with
  | nil => intro done st _ h1 h2; simpa using ⟨h1, h2⟩
  | cons e es ih =>
    intro done st hd h1 h2
    simp only [List.foldl_cons]
    have hsplit : done ++ e :: es = (done ++ [e]) ++ es := by simp
    rw [hsplit]
    cases e with
    | chunk t m =>
      apply ih (done ++ [Ev.chunk t m]) _
      · simpa [annS_append, annN_append, annS, annN] using hd.2
      · simpa [annS_append, annS, combInnerEv] using h1
      · simpa [annN_append, annN, combInnerEv] using h2
    | source i s c =>
      obtain ⟨rfl, hd2⟩ := hd
      apply ih (done ++ [Ev.source _ s c]) _
      · simpa [annS_append, annN_append, annS, annN] using hd2
      · simp only [combInnerEv, lmInsert_map, h1, annS_append, annS]
        exact lmInsert_at_length _ _ _
      · simpa [annN_append, annN, combInnerEv] using h2
    | name i n =>
      obtain ⟨rfl, hd2⟩ := hd
      apply ih (done ++ [Ev.name _ n]) _
      · simpa [annS_append, annN_append, annS, annN] using hd2
      · simpa [annS_append, annS, combInnerEv] using h1
      · simp only [combInnerEv, h2, annN_append, annN]
        exact lmInsert_at_length _ _ _

/-- nothing recorded yet -/
def Fresh (st : CombSt) : Prop := st.lineData = [] ∧ st.innerSourceIndexValueMapping = [] ∧ st.innerNameIndexValueMapping = []

/-- the inner source is announced exactly once in a list of announcements -/
def OnceInner (n : Text) : List Ev → Prop
  | [] => False
  | .source _ s _ :: es => (s = n ∧ ∀ i s' c, Ev.source i s' c ∈ es → s' ≠ n) ∨ (s ≠ n ∧ OnceInner n es)
  | .name _ _ :: es => OnceInner n es
  | .chunk _ _ :: _ => False

theorem combEnd_stat_keep (cfg : CombCfg) : ∀ (evs : List Ev) (st : CombSt), (∀ e ∈ evs, e.isChunk = false) →
    (∀ i s c, Ev.source i s c ∈ evs → s ≠ cfg.innerName) → (combEnd cfg st evs).stat = st.stat := by
  intro evs
  induction evs with
  | nil => intro st _ _; rfl
  | cons e es ih =>
    intro st hc hn
    simp only [combEnd]
    rw [ih _ (fun x hx => hc x (List.mem_cons_of_mem _ hx)) (fun i s c hx => hn i s c (List.mem_cons_of_mem _ hx))]
    cases e with
    | chunk t m => have := hc _ (List.mem_cons_self); simp [Ev.isChunk] at this
    | source i s c =>
      simp only [combStep]
      exact combOnSource_stat cfg st i s c (by simpa using hn i s c (List.mem_cons_self))
    | name i n => rfl

/-- **after the outer announcements**: the recorded knowledge is what the inner map's stream (over the content of the inner source)
delivered; `k` is the outer index of the inner source and `c` the content announced for it -/
theorem combEnd_rec (cfg : CombCfg) (hI : MapIdxOK cfg.innerMap) : ∀ (evs : List Ev) (st : CombSt), Fresh st → (∀ e ∈ evs, e.isChunk = false) →
    OnceInner cfg.innerName evs →
    ∃ k c, Ev.source k cfg.innerName c ∈ evs ∧
      ((∀ m ∈ chunkMs (streamSM ((st.innerSource.or c).getD []) cfg.innerMap ⟨cfg.columns, false⟩).evs, 1 ≤ m.gl) →
        InnerRec (combEnd cfg st evs) k (streamSM ((st.innerSource.or c).getD []) cfg.innerMap ⟨cfg.columns, false⟩).evs) := by
  intro evs
  induction evs with
  | nil => intro st _ _ h; exact absurd h (by simp [OnceInner])
  | cons e es ih =>
    intro st hf hnc ho
    have hnc' : ∀ e ∈ es, e.isChunk = false := fun x hx => hnc x (List.mem_cons_of_mem _ hx)
    cases e with
    | chunk t m => exact absurd ho (by simp [OnceInner])
    | name i n =>
      simp only [OnceInner] at ho
      obtain ⟨k, c, h1, h3⟩ := ih (combStep cfg st (.name i n)).1 (by simpa [combStep, combOnName, Fresh] using hf) hnc' ho
      exact ⟨k, c, List.mem_cons_of_mem _ h1, h3⟩
    | source i s c =>
      simp only [OnceInner] at ho
      rcases ho with ⟨hs, hrest⟩ | ⟨hs, hrest⟩
      · -- this is the announcement of the inner source
        subst hs
        refine ⟨i, c, List.mem_cons_self, fun hgl => ?_⟩
        simp only [combEnd]
        have hkeep := combEnd_stat_keep cfg es (combStep cfg st (.source i cfg.innerName c)).1 hnc' hrest
        apply innerRec_of_stat _ _ _ _ hkeep
        simp only [combStep, combOnSource, beq_self_eq_true, if_true]
        obtain ⟨f1, f2, f3⟩ := hf
        have hd := streamSM_declOK ((st.innerSource.or c).getD []) cfg.innerMap ⟨cfg.columns, false⟩ hI
        refine ⟨?_, fun L hL => ?_, ?_, ?_⟩
        · rw [combInnerFold_keep]
        · rw [fold_segs _ _ L hL hgl]
          simp [segsAt, f1]
        · exact (innerFold_vals _ [] _ hd (by simp [f2, annS]) (by simp [f3, annN])).1
        · exact (innerFold_vals _ [] _ hd (by simp [f2, annS]) (by simp [f3, annN])).2
      · have hsb : (s == cfg.innerName) = false := by simpa using hs
        have hst := combOnSource_stat cfg st i s c hsb
        have hf' : Fresh (combStep cfg st (.source i s c)).1 := by
          simp only [combStep]
          simp only [CombSt.stat, Prod.mk.injEq] at hst
          exact ⟨hst.1.trans hf.1, hst.2.1.trans hf.2.1, hst.2.2.1.trans hf.2.2⟩
        obtain ⟨k, c', h1, h3⟩ := ih (combStep cfg st (.source i s c)).1 hf' hnc' hrest
        have hsrc : (combStep cfg st (.source i s c)).1.innerSource = st.innerSource := by
          simp only [combStep]
          simp only [CombSt.stat, Prod.mk.injEq] at hst
          exact hst.2.2.2.2.2
        rw [hsrc] at h3
        exact ⟨k, c', List.mem_cons_of_mem _ h1, h3⟩

end Rs
