import RsModel.Lemmas.Codec
import RsModel.Lemmas.DeclMap
import RsModel.Lemmas.ModeCold
import RsModel.Lemmas.StrictOrder
import RsModel.Lemmas.WarmMap
/-!
# C11 on warm caches: the second `map()` of a tree with CachedSource nodes is strictly ordered too

The map a CachedSource stored from its subtree's text-less stream is itself strictly sorted (`getMap_strict` on the subtree), so the
replay tree the second call streams (`Src.warm`) is again in the domain of the strict-order theorem.
-/
namespace Rs

/-- segments of `map()` stand at strictly increasing characters of `source()` (columns = true, cold caches) -/
theorem getMap_strict (s : Src) (h : s.ModeHypC) (hs : s.StrictMaps) (hn : s.ids.Nodup) (σ : Store) (hc : Cold σ s.ids) (final : Bool)
    (hsmall : ∀ m ∈ chunkMs (s.stream ⟨true, true⟩ σ).1.evs, m.small) (sm : SMap) (hm : (getMap s ⟨true, final⟩ σ).1 = some sm) :
    (decode sm.mappings).Pairwise mlt
    ∧ ∀ m ∈ decode sm.mappings, ∃ k, k < s.src.length ∧ adv startPos (s.src.take k) = ⟨m.gl, m.gc⟩ := by
  have hm3 := Src.m3c s h hn σ σ hc hc
  simp only [getMap] at hm
  rw [mapOfEvs_mappings _ sm hm, decode_encode _ hsmall (linesOK_of_sorted _ 1 0 hm3.sorted)]
  have hsub := keptFrom_sublist (chunkMs (s.stream ⟨true, true⟩ σ).1.evs) {}
  have hinc : IncP s.src 0 s.src.length ((keptFrom {} (chunkMs (s.stream ⟨true, true⟩ σ).1.evs)).map fun m => (m.gl, m.gc)) :=
    incP_sublist _ _ _ (hsub.map _) _ _ (Src.incC s h hs hn σ hc)
  constructor
  · have := incP_pairwise _ _ _ _ (Nat.le_refl _) hinc
    rw [List.pairwise_map] at this
    exact this
  · intro m hmem
    obtain ⟨k, _, hk, e⟩ := incP_lower _ _ _ _ (Nat.le_refl _) hinc (m.gl, m.gc) (List.mem_map.2 ⟨m, hmem, rfl⟩)
    exact ⟨k, hk, e⟩

/-- the second `get_map` is the `get_map` of the replay tree -/
theorem getMap_second (s : Src) (σ : Store) (hk : s.CachedOK) (hn : s.ids.Nodup) (hc : Cold σ s.ids) (f1 f2 : Bool) :
    (getMap s ⟨true, f2⟩ (getMap s ⟨true, f1⟩ σ).2).1 = (getMap (s.warm ⟨true, true⟩) ⟨true, f2⟩ []).1 := by
  have hfill := Src.stream_fills s ⟨true, true⟩ σ hk hn hc
  simp only [getMap]
  rw [Src.stream_warm s ⟨true, true⟩ _ hfill]

mutual
theorem Src.strip_strict : ∀ (s : Src), s.StrictMaps → s.strip.StrictMaps
  | .raw .., _ | .rawStr .., _ | .rawBuf .., _ | .orig .., _ => trivial
  | .sms .., h => h
  | .replace .., _ => trivial
  | .concat cs, h => by simp only [Src.StrictMaps] at h; simp only [Src.strip, Src.StrictMaps]; exact SrcList.stripL_strict cs h
  | .cached _ inner, h => by simp only [Src.StrictMaps] at h; simp only [Src.strip]; exact Src.strip_strict inner h
theorem SrcList.stripL_strict : ∀ (l : SrcList), l.StrictMapsL → l.stripL.StrictMapsL
  | .nil, _ => trivial
  | .cons s r, h => ⟨Src.strip_strict s h.1, SrcList.stripL_strict r h.2⟩
end

mutual
/-- the stored maps are strictly sorted: the replay tree has strictly sorted attached maps -/
theorem Src.warm_strict : ∀ (s : Src), s.ModeHypC → s.StrictMaps → s.SmallF → (s.warm ⟨true, true⟩).StrictMaps
  | .raw .., _, _, _ | .rawStr .., _, _, _ | .rawBuf .., _, _, _ | .orig .., _, _, _ => trivial
  | .sms .., _, h, _ => h
  | .replace .., _, _, _ => trivial
  | .concat cs, h, hs, hf => by
    simp only [Src.ModeHypC] at h; simp only [Src.StrictMaps] at hs; simp only [Src.SmallF] at hf
    simp only [Src.warm, Src.StrictMaps]; exact SrcList.warmL_strict cs h hs hf
  | .cached id inner, h, hs, hf => by
    simp only [Src.ModeHypC] at h
    simp only [Src.StrictMaps] at hs
    simp only [Src.SmallF] at hf
    simp only [Src.warm]
    cases hm : mapOfEvs true (inner.strip.stream ⟨true, true⟩ []).1.evs with
    | none => trivial
    | some sm =>
      simp only [Src.StrictMaps]
      have hnc := Src.strip_nc inner
      obtain ⟨hn, _, _⟩ := nc_facts inner.strip hnc
      exact (getMap_strict inner.strip (Src.strip_modeHypC inner h.1) (Src.strip_strict inner hs) hn [] (cold_nil _) true hf sm
        (by simp only [getMap]; exact hm)).1
theorem SrcList.warmL_strict : ∀ (l : SrcList), l.ModeHypsC → l.StrictMapsL → l.SmallFs → (l.warmL ⟨true, true⟩).StrictMapsL
  | .nil, _, _, _ => trivial
  | .cons s r, h, hs, hf => ⟨Src.warm_strict s h.1 hs.1 hf.1, SrcList.warmL_strict r h.2 hs.2 hf.2⟩
end

/-- **the second `map()`** (columns = true) of a tree with CachedSource nodes at any depth (none beneath a ReplaceSource), the first
having run on cold caches: its segments stand at strictly increasing characters of `source()`, all before the end -/
theorem getMap_twice_strict (s : Src) (σ : Store) (h : s.ModeHypC) (hst : s.StrictMaps) (hk : s.CachedOK) (hs : s.SmallF) (hn : s.ids.Nodup)
    (hc : Cold σ s.ids) (f1 f2 : Bool)
    (hsmall2 : ∀ m ∈ chunkMs ((s.warm ⟨true, true⟩).stream ⟨true, true⟩ []).1.evs, m.small)
    (sm2 : SMap) (h2 : (getMap s ⟨true, f2⟩ (getMap s ⟨true, f1⟩ σ).2).1 = some sm2) :
    (decode sm2.mappings).Pairwise mlt
    ∧ ∀ m ∈ decode sm2.mappings, ∃ k, k < s.src.length ∧ adv startPos (s.src.take k) = ⟨m.gl, m.gc⟩ := by
  rw [getMap_second s σ hk hn hc f1 f2] at h2
  obtain ⟨_, a2⟩ := Src.warmF_NA s h hk hs
  have hwnc := Src.warm_nc s ⟨true, true⟩ hk
  obtain ⟨hwn, _, _⟩ := nc_facts _ hwnc
  have := getMap_strict (s.warm ⟨true, true⟩) a2 (Src.warm_strict s h hst hs) hwn [] (cold_nil _) f2 hsmall2 sm2 h2
  rw [Src.warm_src] at this
  exact this

end Rs
