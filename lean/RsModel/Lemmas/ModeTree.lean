import RsModel.Lemmas.ModeSorted
import RsModel.Lemmas.DeclTree
/-! # final_source mode attributes like normal mode: whole trees (columns = true, no CachedSource, no inner maps) -/
namespace Rs

/-! ## the chunks of a normal-mode stream cover its text -/

theorem lookupGo_some_of_match (l c : Nat) : ∀ (ms : List Mapping) (acc : Option (Option Orig)),
    (∃ m ∈ ms, m.gl = l ∧ m.gc ≤ c) → lookupGo l c acc ms ≠ none := by
  intro ms
  induction ms with
  | nil => intro acc ⟨m, hm, _⟩; simp at hm
  | cons x xs ih =>
    intro acc ⟨m, hm, hmatch⟩
    simp only [lookupGo]
    simp only [List.mem_cons] at hm
    rcases hm with rfl | hm
    · rw [if_pos hmatch, lookupGo_acc]
      cases lookupGo l c none xs <;> simp
    · exact ih _ ⟨m, hm, hmatch⟩

theorem covering_chunk : ∀ (evs : List Ev) (pre : Text), posOKT pre evs → ChunksTok evs → evsTL evs = false →
    ∀ j, j < (evsText evs).length →
      ∃ m ∈ chunkMs evs, m.gl = (adv startPos (pre ++ (evsText evs).take j)).line ∧ m.gc ≤ (adv startPos (pre ++ (evsText evs).take j)).col := by
  intro evs
  induction evs with
  | nil => intro pre _ _ _ j hj; simp [evsText] at hj
  | cons e es ih =>
    intro pre hp hT hTL j hj
    have hTs : ChunksTok es := fun t m hm => hT t m (by simp [hm])
    have hTLs : evsTL es = false := by simp only [evsTL_cons, Bool.or_eq_false_iff] at hTL; exact hTL.2
    cases e with
    | chunk t m =>
      cases t with
      | none => simp [evsTL_cons, Ev.textless] at hTL
      | some t =>
        simp only [posOKT] at hp
        rw [evsText_cons] at hj ⊢
        simp only [Ev.text] at hj ⊢
        by_cases hin : j < t.length
        · refine ⟨m, by simp [chunkMs], ?_⟩
          rw [List.take_append_of_le_length (by omega), adv_append, ← hp.1,
            adv_noNL _ _ (tok_prefix_noNL t (hT t m (by simp)) j hin)]
          simp
        · have hge : t.length ≤ j := by omega
          obtain ⟨m', hm', h1, h2⟩ := ih (pre ++ t) hp.2 hTs hTLs (j - t.length) (by simp at hj; omega)
          refine ⟨m', by simp [chunkMs, hm'], ?_⟩
          have : (t ++ evsText es).take j = t ++ (evsText es).take (j - t.length) := by
            have e : j = t.length + (j - t.length) := by omega
            conv => lhs; rw [e]
            exact List.take_length_add_append _
          rw [this, ← List.append_assoc]
          exact ⟨h1, h2⟩
    | source i s c =>
      rw [evsText_cons] at hj ⊢
      simp only [Ev.text, List.nil_append] at hj ⊢
      obtain ⟨m', hm', h⟩ := ih pre hp hTs hTLs j hj
      exact ⟨m', by simpa [chunkMs] using hm', h⟩
    | name i n =>
      rw [evsText_cons] at hj ⊢
      simp only [Ev.text, List.nil_append] at hj ⊢
      obtain ⟨m', hm', h⟩ := ih pre hp hTs hTLs j hj
      exact ⟨m', by simpa [chunkMs] using hm', h⟩

theorem tiles_of_posOK (r : SResult) (hp : PosOK r) (hT : ChunksTok r.evs) (hTL : evsTL r.evs = false) :
    ∀ j, j < (evsText r.evs).length →
      lookupGo (adv startPos ((evsText r.evs).take j)).line (adv startPos ((evsText r.evs).take j)).col none (chunkMs r.evs) ≠ none := by
  intro j hj
  have := covering_chunk r.evs [] hp.1 hT hTL j hj
  simp only [List.nil_append] at this
  exact lookupGo_some_of_match _ _ _ _ this

theorem lookEq_refl (T : Text) (A : List Mapping) : LookEq T A A := fun _ _ => rfl

/-- a stream that serves both modes (ReplaceSource) -/
theorem childOK_same (r : SResult) (hp : PosOK r) (hT : ChunksTok r.evs) (hTL : evsTL r.evs = false) (hd : DeclOK 0 0 r.evs) :
    ChildOK r r (evsText r.evs) where
  finF := finOK_of_posOK r hp hTL
  finN := finOK_of_posOK r hp hTL
  lines := linesOK_of_sorted _ 1 0 (chunkMs_sorted r.evs [] hp.1 hTL)
  tiles := tiles_of_posOK r hp hT hTL
  declF := hd
  declN := hd
  decls := rfl
  look := lookEq_refl _ _

/-! ## declarations are the same in both modes -/

theorem declsOf_chunks (P : Orig → Prop) (evs : List Ev) (h : ChunkOrigs P evs) : declsOf evs = [] := by
  induction evs with
  | nil => rfl
  | cons e es ih =>
    obtain ⟨t, m, rfl, _⟩ := h e (by simp)
    simp only [declsOf]
    exact ih (fun x hx => h x (by simp [hx]))

theorem streamRaw_decls (t : Text) (o : Opts) : declsOf (streamRaw t o).evs = [] := by
  unfold streamRaw
  split
  · rfl
  · exact declsOf_chunks (fun _ => True) _ (rawChunks_origs _ _ _)

theorem streamOriginal_decls (t name : Text) : declsOf (streamOriginal t name ⟨true, true⟩).evs = declsOf (streamOriginal t name ⟨true, false⟩).evs := by
  simp only [streamOriginal, if_true, declsOf]
  rw [declsOf_chunks _ _ (origTokChunks_origs true _ _ _), declsOf_chunks _ _ (origTokChunks_origs false _ _ _)]

theorem adv_eq_start (t : Text) : adv startPos t = ⟨1, 0⟩ ↔ t = [] := by
  constructor
  · intro h
    cases t with
    | nil => rfl
    | cons c cs =>
      exfalso
      have := adv_gt c cs startPos
      rw [h] at this
      rcases this with g | g <;> simp only [startPos] at g <;> omega
  · rintro rfl; rfl

theorem splitLines_nil_iff (t : Text) : splitLines t = [] ↔ t = [] := by
  constructor
  · intro h
    have := splitLines_join t
    rw [h] at this
    simpa using this.symm
  · rintro rfl; rfl

theorem streamSM_decls (t : Text) (sm : SMap) : declsOf (streamSM t sm ⟨true, true⟩).evs = declsOf (streamSM t sm ⟨true, false⟩).evs := by
  simp only [streamSM]
  unfold streamSMFinal streamSMFull
  dsimp only
  have hsrc : declsOf (smSourceEvs sm) = smSourceEvs sm :=
    declsOf_noChunk _ (by intro e he; simp only [smSourceEvs, List.mem_map] at he; obtain ⟨i, _, rfl⟩ := he; rfl)
  have hnm : declsOf (smNameEvs sm) = smNameEvs sm :=
    declsOf_noChunk _ (by intro e he; simp only [smNameEvs, List.mem_map] at he; obtain ⟨i, _, rfl⟩ := he; rfl)
  by_cases ht : t = []
  · subst ht; rfl
  · have h1 : ¬ ((genInfo t).line == 1 && (genInfo t).col == 0) = true := by
      intro h
      simp only [Bool.and_eq_true, beq_iff_eq] at h
      apply ht
      apply (adv_eq_start t).1
      rw [← genInfo_adv]
      cases hg : genInfo t with
      | mk l c => rw [hg] at h; simp only at h; rw [h.1, h.2]
    have h2 : ¬ (splitLines t).isEmpty = true := by
      intro h
      exact ht ((splitLines_nil_iff t).1 (List.isEmpty_iff.1 h))
    simp only [h1, h2, Bool.false_eq_true, if_false, declsOf_append, hsrc, hnm]
    rw [declsOf_chunks (fun _ => True) _ (smFinalGo_origs _ _ _ _ (fun _ _ _ _ => trivial)),
      declsOf_chunks (fun _ => True) _ (smFullGo_origs _ _ _ _ _ _ (fun _ _ => trivial) (fun _ _ _ _ => trivial))]

theorem concatChild_decls (cf cn : SResult) (stF stN : CSt) (h1 : stF.sourceMapping = stN.sourceMapping) (h2 : stF.nameMapping = stN.nameMapping)
    (hd : declsOf cf.evs = declsOf cn.evs) :
    declsOf (concatChild true stF cf).2 = declsOf (concatChild false stN cn).2
    ∧ (concatChild true stF cf).1.sourceMapping = (concatChild false stN cn).1.sourceMapping
    ∧ (concatChild true stF cf).1.nameMapping = (concatChild false stN cn).1.nameMapping := by
  have htb := concatEvs_tb_modes cf.evs cn.evs (childStart stF) (childStart stN) (tb_child stF stN h1 h2) hd
  obtain ⟨_, _, _, t4N⟩ := concatChild_state false stN cn
  obtain ⟨_, _, _, t4F⟩ := concatChild_state true stF cf
  have hcl : ∀ (b : Bool) (x : Mapping), declsOf (if b = true then [Ev.chunk none x] else []) = [] := by
    intro b x; cases b <;> rfl
  refine ⟨?_, congrArg Tb.sm (t4F.trans (htb.1.trans t4N.symm)), congrArg Tb.nm (t4F.trans (htb.1.trans t4N.symm))⟩
  simp only [concatChild, declsOf_append, hcl, List.append_nil]
  exact htb.2

theorem concatGo_decls : ∀ (cfs cns : List SResult) (Ts : List Text), ChildrenOK cfs cns Ts → ∀ (stF stN : CSt),
    stF.sourceMapping = stN.sourceMapping → stF.nameMapping = stN.nameMapping →
    declsOf (concatGo true stF cfs).2 = declsOf (concatGo false stN cns).2 := by
  intro cfs cns Ts h
  induction h with
  | nil => intro _ _ _ _; rfl
  | cons cf cn T cfs cns Ts hc _ ih =>
    intro stF stN h1 h2
    obtain ⟨a, b, c⟩ := concatChild_decls cf cn stF stN h1 h2 hc.decls
    simp only [concatGo, declsOf_append]
    rw [a, ih _ _ b c]

end Rs
