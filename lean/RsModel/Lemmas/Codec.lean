import RsModel.Lemmas.Vlq
/-! # decode ∘ encode for the full mappings codec -/
namespace Rs

def U31 : Nat := 2 ^ 31

theorem vlqNum_nowrap (a b : Nat) (ha : a < U31) (hb : b < U31) :
    vlqNum a b = (if a ≥ b then (a - b) * 2 else (b - a) * 2 + 1) ∧ vlqNum a b < 2 ^ 32 := by
  unfold vlqNum U31 at *
  split <;> constructor <;> omega

theorem addField_vlq (a b : Nat) (ha : a < U31) (hb : b < U31) : addField b (vlqNum a b) = a := by
  obtain ⟨h1, h2⟩ := vlqNum_nowrap a b ha hb
  unfold addField finalValue U31 at *
  have hm : vlqNum a b % 2 ^ 64 = vlqNum a b := Nat.mod_eq_of_lt (by omega)
  simp only [hm]
  have hlt : vlqNum a b < 2 ^ 63 := by omega
  simp only [hlt, if_true]
  rw [h1]
  split <;> split <;> omega

theorem setField_congr (s : DecSt) (v p x : Nat) :
    ({ s with value := v, valuePos := p } : DecSt).setField x = s.setField x := rfl

theorem decByte_digit (s : DecSt) (d : Nat) (hd : d < 64) :
    decByte s (b64At d) =
      if d < 32 then (s.setField (s.value + d * 2 ^ s.valuePos), [])
      else ({ s with value := s.value + (d % 32) * 2 ^ s.valuePos, valuePos := s.valuePos + 5 }, []) := by
  obtain ⟨h1, h2, h3, h4⟩ := b64Val_b64At_class d hd
  have hv := b64Val_b64At d hd
  unfold decByte
  simp only [h1, if_false, h2, ne_eq, not_true_eq_false]
  by_cases hlt : d < 32
  · simp only [h3.mpr hlt, if_true, hlt, hv]
  · have : ¬ (b64Val (b64At d) &&& Generated.CONTINUATION_BIT) = 0 := fun h => hlt (h3.mp h)
    simp only [this, if_false, hlt, h4]

theorem dec_digits (n : Nat) : ∀ (s : DecSt),
    decBytes s ((vlqDigits n).map b64At) = (s.setField (s.value + n * 2 ^ s.valuePos), []) := by
  induction n using Nat.strongRecOn with
  | _ n ih =>
    intro s
    unfold vlqDigits
    split
    · rename_i h
      simp only [List.map_cons, List.map_nil, decBytes, decByte_digit s n (by omega), h, if_true, List.append_nil]
    · rename_i h
      have hd : n % 32 + 32 < 64 := by omega
      have hnot : ¬ (n % 32 + 32 < 32) := by omega
      simp only [List.map_cons, decBytes, decByte_digit s _ hd, hnot, if_false]
      rw [ih (n / 32) (by omega)]
      simp only [List.nil_append]
      rw [setField_congr]
      congr 2
      have e1 : (n % 32 + 32) % 32 = n % 32 := by omega
      rw [e1, Nat.pow_add]
      have : n = n % 32 + 32 * (n / 32) := by omega
      calc s.value + n % 32 * 2 ^ s.valuePos + n / 32 * (2 ^ s.valuePos * 2 ^ 5)
          = s.value + (n % 32 + 32 * (n / 32)) * 2 ^ s.valuePos := by
            rw [Nat.add_mul]; have : (2:Nat)^5 = 32 := rfl; rw [this]
            rw [Nat.add_assoc]; congr 2
            rw [Nat.mul_comm (2 ^ s.valuePos) 32, ← Nat.mul_assoc, Nat.mul_comm (n/32) 32]
        _ = s.value + n * 2 ^ s.valuePos := by rw [← this]

/-- one VLQ field relative to the current running value -/
theorem dec_field (a b : Nat) (s : DecSt) (h0 : s.value = 0) (h1 : s.valuePos = 0) :
    decBytes s (vlqChars a b) = (s.setField (vlqNum a b), []) := by
  unfold vlqChars
  rw [dec_digits]; simp [h0, h1]

theorem dec_field_lit (a b d0 d1 d2 d3 d4 dp g : Nat) :
    decBytes ⟨d0, d1, d2, d3, d4, dp, 0, 0, g⟩ (vlqChars a b)
      = (DecSt.setField ⟨d0, d1, d2, d3, d4, dp, 0, 0, g⟩ (vlqNum a b), []) :=
  dec_field a b _ rfl rfl

theorem vlqChars_self (a : Nat) : vlqChars a a = [CH_A] := by
  unfold vlqChars vlqNum
  simp [vlqDigits, b64At_zero]

/-- the `'A'` shortcut of the encoder is what `encode_vlq` would have written anyway -/
theorem shortcut_eq (a b : Nat) : (if (a == b) = true then [CH_A] else vlqChars a b) = vlqChars a b := by
  split
  · rename_i h; simp at h; subst h; exact (vlqChars_self a).symm
  · rfl

theorem decBytes_append (s : DecSt) (a b : Text) :
    decBytes s (a ++ b) = ((decBytes (decBytes s a).1 b).1, (decBytes s a).2 ++ (decBytes (decBytes s a).1 b).2) := by
  induction a generalizing s with
  | nil => simp [decBytes]
  | cons c cs ih => simp [decBytes, ih, List.append_assoc]

theorem decByte_comma (s : DecSt) : decByte s COMMA = ({ s with dataPos := 0 }, s.pending) := by
  unfold decByte
  have := sem_ne_err
  simp only [b64Val_comma, this.2.1, if_false, ne_eq, this.2.2.2.1, not_false_eq_true, if_true, this.2.2.2.2]

theorem decByte_semi (s : DecSt) :
    decByte s SEMI = ({ s with dataPos := 0, genLine := s.genLine + 1, d0 := 0 }, s.pending) := by
  unfold decByte
  have := sem_ne_err
  simp only [b64Val_semi, this.1, if_false, ne_eq, this.2.2.1, not_false_eq_true, if_true]

/-- relation between encoder and decoder state after the decoder has consumed everything the
encoder wrote so far (the last written segment is still pending in the decoder) -/
structure Rel (e : EncSt) (d : DecSt) : Prop where
  v0 : d.value = 0
  p0 : d.valuePos = 0
  line : d.genLine = e.curLine
  c0 : d.d0 = e.curCol
  c1 : d.d1 = e.curSrc
  c2 : d.d2 = e.curOL
  c3 : d.d3 = e.curOC
  c4 : d.d4 = e.curName
  init : e.initial = true → d.dataPos = 0

/-- generated lines do not decrease -/
def linesOK : Nat → List Mapping → Prop
  | _, [] => True
  | l, m :: ms => l ≤ m.gl ∧ linesOK m.gl ms

theorem linesOK_mono {l l' : Nat} (h : l' ≤ l) : ∀ ms, linesOK l ms → linesOK l' ms
  | [], _ => trivial
  | _ :: _, ⟨h1, h2⟩ => ⟨Nat.le_trans h h1, h2⟩

/-- all numbers fit in 31 bits (so no delta wraps in `u32`) -/
def Orig.small (o : Orig) : Prop := o.src < U31 ∧ o.line < U31 ∧ o.col < U31 ∧ ∀ n, o.name = some n → n < U31
def Mapping.small (m : Mapping) : Prop := m.gc < U31 ∧ ∀ o, m.orig = some o → o.small
def EncSt.small (e : EncSt) : Prop :=
  e.curCol < U31 ∧ e.curSrc < U31 ∧ e.curOL < U31 ∧ e.curOC < U31 ∧ e.curName < U31

theorem dec_semis (k : Nat) (s : DecSt) (hp : s.dataPos = 0) (h0 : s.d0 = 0) :
    decBytes s (List.replicate k SEMI) = ({ s with genLine := s.genLine + k }, []) := by
  induction k generalizing s with
  | zero => simp [decBytes]
  | succ k ih =>
    have hpend : s.pending = [] := by simp [DecSt.pending, hp]
    simp only [List.replicate_succ, decBytes, decByte_semi, hpend, List.nil_append]
    rw [ih _ rfl rfl]
    cases s; simp_all; omega

theorem dec_sep (e : EncSt) (d : DecSt) (m : Mapping) (hr : Rel e d) (hl : e.curLine ≤ m.gl) :
    ∃ d1, decBytes d (encSep e m) = (d1, d.pending) ∧ d1.dataPos = 0 ∧ d1.value = 0 ∧ d1.valuePos = 0
      ∧ d1.genLine = m.gl ∧ d1.d0 = (if e.curLine < m.gl then 0 else e.curCol)
      ∧ d1.d1 = e.curSrc ∧ d1.d2 = e.curOL ∧ d1.d3 = e.curOC ∧ d1.d4 = e.curName := by
  unfold encSep
  by_cases hlt : e.curLine < m.gl
  · simp only [hlt, if_true]
    obtain ⟨k, hk⟩ : ∃ k, m.gl - e.curLine = k + 1 := ⟨m.gl - e.curLine - 1, by omega⟩
    rw [hk, List.replicate_succ]
    simp only [decBytes, decByte_semi]
    rw [dec_semis k _ rfl rfl]
    refine ⟨{ d with dataPos := 0, genLine := d.genLine + 1 + k, d0 := 0 }, by simp, rfl, hr.v0, hr.p0, ?_, rfl,
      hr.c1, hr.c2, hr.c3, hr.c4⟩
    simp [hr.line]; omega
  · simp only [hlt, if_false]
    have hle : m.gl = e.curLine := by omega
    cases hi : e.initial
    · simp only [Bool.false_eq_true, if_false, decBytes, decByte_comma]
      exact ⟨{ d with dataPos := 0 }, by simp, rfl, hr.v0, hr.p0, by simp [hr.line, hle], hr.c0, hr.c1, hr.c2, hr.c3, hr.c4⟩
    · simp only [if_true, decBytes]
      have hp := hr.init hi
      have hpend : d.pending = [] := by simp [DecSt.pending, hp]
      exact ⟨d, by simp [hpend], hp, hr.v0, hr.p0, by rw [hr.line, hle], hr.c0, hr.c1, hr.c2, hr.c3, hr.c4⟩

/-- `encFields` with the `'A'` shortcuts unfolded -/
def encFields' (s : EncSt) (m : Mapping) : Text :=
  let col0 := if s.curLine < m.gl then 0 else s.curCol
  vlqChars m.gc col0 ++
  match m.orig with
  | none => []
  | some o =>
    vlqChars o.src s.curSrc ++ vlqChars o.line s.curOL ++ vlqChars o.col s.curOC ++
    match o.name with
    | none => []
    | some n => vlqChars n s.curName

theorem encFields_eq (s : EncSt) (m : Mapping) : encFields s m = encFields' s m := by
  unfold encFields encFields'
  cases m.orig with
  | none => rfl
  | some o => simp only [shortcut_eq]; rfl

theorem dec_fields (e : EncSt) (d1 : DecSt) (m : Mapping) (hes : e.small) (hms : m.small)
    (hp : d1.dataPos = 0) (hv : d1.value = 0) (hvp : d1.valuePos = 0)
    (h0 : d1.d0 = (if e.curLine < m.gl then 0 else e.curCol))
    (h1 : d1.d1 = e.curSrc) (h2 : d1.d2 = e.curOL) (h3 : d1.d3 = e.curOC) (h4 : d1.d4 = e.curName)
    (hl : d1.genLine = m.gl) (hle : e.curLine ≤ m.gl) :
    (decBytes d1 (encFields e m)).2 = [] ∧ (decBytes d1 (encFields e m)).1.pending = [m]
      ∧ Rel (encNext e m) (decBytes d1 (encFields e m)).1 := by
  rw [encFields_eq]
  obtain ⟨gl, gc, orig⟩ := m
  obtain ⟨a0, a1, a2, a3, a4, dp, v, vp, g⟩ := d1
  obtain ⟨e0, e1, e2, e3, e4⟩ := hes
  obtain ⟨m0, mo⟩ := hms
  simp only at hp hv hvp h0 h1 h2 h3 h4 hl hle m0 mo
  subst hp hv hvp h1 h2 h3 h4
  have hline : (if e.curLine < gl then gl else e.curLine) = g := by split <;> omega
  have hc0 : (if e.curLine < gl then 0 else e.curCol) < U31 := by split <;> simp [U31] <;> exact e0
  have f0 := addField_vlq gc _ m0 hc0
  cases orig with
  | none =>
    simp only [encFields', List.append_nil, dec_field_lit, DecSt.setField]
    refine ⟨trivial, by simp [DecSt.pending, h0, f0, hl], ?_⟩
    constructor <;> simp [encNext, hline, h0, f0]
  | some o =>
    obtain ⟨os, ol, oc, on⟩ := o
    obtain ⟨s1, s2, s3, s4⟩ := mo _ rfl
    simp only at s1 s2 s3 s4
    have f1 := addField_vlq os _ s1 e1
    have f2 := addField_vlq ol _ s2 e2
    have f3 := addField_vlq oc _ s3 e3
    cases on with
    | none =>
      simp only [encFields', List.append_nil, decBytes_append, dec_field_lit, DecSt.setField]
      refine ⟨trivial, by simp [DecSt.pending, h0, f0, f1, f2, f3, hl], ?_⟩
      constructor <;> simp [encNext, hline, h0, f0, f1, f2, f3]
    | some n =>
      have f4 := addField_vlq n _ (s4 n rfl) e4
      simp only [encFields', decBytes_append, dec_field_lit, DecSt.setField, List.append_nil]
      refine ⟨trivial, by simp [DecSt.pending, h0, f0, f1, f2, f3, f4, hl], ?_⟩
      constructor <;> simp [encNext, hline, h0, f0, f1, f2, f3, f4]

theorem encNext_line (e : EncSt) (m : Mapping) (h : e.curLine ≤ m.gl) : (encNext e m).curLine = m.gl := by
  unfold encNext; cases m.orig <;> simp <;> omega

theorem encNext_small (e : EncSt) (m : Mapping) (he : e.small) (hm : m.small) : (encNext e m).small := by
  obtain ⟨e0, e1, e2, e3, e4⟩ := he
  obtain ⟨m0, mo⟩ := hm
  unfold encNext
  cases ho : m.orig with
  | none => exact ⟨m0, e1, e2, e3, e4⟩
  | some o =>
    obtain ⟨s1, s2, s3, s4⟩ := mo o ho
    refine ⟨m0, s1, s2, s3, ?_⟩
    show (match o.name with | some n => n | none => e.curName) < U31
    cases hn : o.name with
    | none => exact e4
    | some n => exact s4 n hn

/-- decoding what the encoder wrote yields exactly the mappings the encoder kept -/
theorem decode_encode_from : ∀ (ms : List Mapping) (e : EncSt) (d : DecSt), Rel e d → e.small →
    (∀ m ∈ ms, m.small) → linesOK e.curLine ms →
    (decBytes d (encodeFrom e ms)).2 ++ (decBytes d (encodeFrom e ms)).1.pending = d.pending ++ keptFrom e ms := by
  intro ms
  induction ms with
  | nil => intro e d _ _ _ _; simp [encodeFrom, keptFrom, decBytes]
  | cons m ms ih =>
    intro e d hr hes hsm hl
    obtain ⟨hle, hrest⟩ := hl
    have hm : m.small := hsm m (by simp)
    have hms : ∀ x ∈ ms, x.small := fun x hx => hsm x (by simp [hx])
    simp only [encodeFrom, keptFrom]
    by_cases hs : encSkip e m = true
    · simp only [hs, if_true]
      exact ih e d hr hes hms (linesOK_mono hle ms hrest)
    · simp only [hs]
      obtain ⟨d1, hsep, hp, hv, hvp, hgl, h0, h1, h2, h3, h4⟩ := dec_sep e d m hr hle
      obtain ⟨f1, f2, f3⟩ := dec_fields e d1 m hes hm hp hv hvp h0 h1 h2 h3 h4 hgl hle
      have hnext := ih (encNext e m) (decBytes d1 (encFields e m)).1 f3 (encNext_small e m hes hm) hms
        (by rw [encNext_line e m hle]; exact hrest)
      simp only [Bool.false_eq_true, if_false]
      rw [List.append_assoc, decBytes_append d (encSep e m), hsep]
      dsimp only
      rw [decBytes_append d1 (encFields e m), f1]
      dsimp only
      rw [List.nil_append, List.append_assoc, hnext, f2]
      simp

theorem decode_encode (ms : List Mapping) (hs : ∀ m ∈ ms, m.small) (h : linesOK 1 ms) :
    decode (encodeFull ms) = keptFrom {} ms := by
  have := decode_encode_from ms {} {} (by constructor <;> simp) (by simp [EncSt.small, U31]) hs h
  simpa [decode, encodeFull, decInit_eq, DecSt.pending] using this

end Rs
