import RsModel.Lemmas.LinesSM
import RsModel.Lemmas.ModeCold
import RsModel.Lemmas.DeclMap
/-!
# columns = false: ConcatSource attributes every generated line alike in both modes

Per generated line the first *mapped* chunk counts; unmapped chunks (among them the closing mappings of the text-less mode)
play no role, so only line offsets and the index translation matter.
-/
namespace Rs

theorem lookupLines_append (L : Nat) : ∀ (a b : List Mapping),
    lookupLines (a ++ b) L = match lookupLines a L with | some x => some x | none => lookupLines b L := by
  intro a
  induction a with
  | nil => intro b; rfl
  | cons x xs ih =>
    intro b
    rw [List.cons_append, lookupLines_cons, lookupLines_cons]
    by_cases h : x.gl = L ∧ x.orig.isSome = true
    · rw [if_pos h, if_pos h]
      cases ho : x.orig with
      | none => rw [ho] at h; simp at h
      | some o => rfl
    · rw [if_neg h, if_neg h]; exact ih b

/-- the (source, line) pair under the child's index translation -/
def trPair (sim : List Nat) (p : Nat × Nat) : Nat × Nat := (sim.getD p.1 0, p.2)

theorem concatEvs_sim_len (final : Bool) : ∀ (evs : List Ev) (st : CSt) (ns nn : Nat), DeclOK ns nn evs → st.sim.length = ns →
    (concatEvs final st evs).1.sim.length = ns + cntS evs := by
  intro evs
  induction evs with
  | nil => intro st ns nn _ h; simpa [concatEvs, cntS] using h
  | cons e es ih =>
    intro st ns nn hd h
    simp only [concatEvs]
    cases e with
    | chunk t m =>
      rw [ih _ ns nn hd.2 (by rw [concatEv_chunk_st]; exact h)]
      simp [cntS]
    | source i s c =>
      obtain ⟨hi, hr⟩ := hd
      rw [ih _ (ns + 1) nn hr (by simp only [concatEv]; rw [hi, ← h, lmInsert_next]; simp)]
      simp only [cntS]; omega
    | name i n =>
      rw [ih _ ns (nn + 1) hd.2 (by simp only [concatEv]; exact h)]
      simp [cntS]

/-- per line, the translated child answers with the translation of what the child answers -/
theorem lookupLines_trMs (final : Bool) (evs : List Ev) (st : CSt) (hd : DeclOK 0 0 evs) (l : Nat) :
    lookupLines (trMs final (childStart st) evs) l = (lookupLines (chunkMs evs) l).map (trPair (concatEvs final (childStart st) evs).1.sim) := by
  obtain ⟨_, h⟩ := trMs_final_tables final evs (childStart st) 0 0 hd rfl rfl
  have hlen := concatEvs_sim_len final evs (childStart st) 0 0 hd rfl
  have hidx := declOK_chunkMs evs 0 0 hd
  rw [h]
  generalize (concatEvs final (childStart st) evs).1.sim = simK at hlen ⊢
  generalize (concatEvs final (childStart st) evs).1.nim = nimK
  simp only [Nat.zero_add] at hlen hidx
  have key : ∀ (ms : List Mapping), (∀ m ∈ ms, ∀ o, m.orig = some o → o.src < cntS evs) →
      lookupLines (ms.map fun m => ⟨m.gl, m.gc, trans simK nimK m.orig⟩) l = (lookupLines ms l).map (trPair simK) := by
    intro ms
    induction ms with
    | nil => intro _; rfl
    | cons m ms ih =>
      intro hm
      rw [List.map_cons, lookupLines_cons, lookupLines_cons, ih (fun x hx => hm x (by simp [hx]))]
      cases ho : m.orig with
      | none => simp [trans_none]
      | some o =>
        have hsrc := hm m (by simp) o ho
        have hget : simK[o.src]? = some (simK.getD o.src 0) := by
          rw [List.getD_eq_getElem?_getD, List.getElem?_eq_getElem (by omega)]; rfl
        have htr : trans simK nimK (some o) = some ⟨simK.getD o.src 0, o.line, o.col, o.name.bind fun n => nimK[n]?⟩ := by
          unfold trans
          simp only [Option.bind_some, hget]
        simp only [htr, Option.isSome_some, and_true, Option.map_some]
        by_cases hl : m.gl = l
        · simp [hl, trPair]
        · simp [hl]
  exact key (chunkMs evs) (fun m hm o ho => (hidx m hm o ho).1)

/-- the delivered mappings of one child's events answer a line lookup like the translated child does, shifted by the line offset -/
theorem concatEvs_lines (final : Bool) : ∀ (evs : List Ev) (st : CSt) (L : Nat), (∀ m ∈ chunkMs evs, 1 ≤ m.gl) →
    lookupLines (chunkMs (concatEvs final st evs).2) L = if st.lineOff < L then lookupLines (trMs final st evs) (L - st.lineOff) else none := by
  intro evs
  induction evs with
  | nil => intro st L _; simp [concatEvs, chunkMs, trMs, lookupLines_nil]
  | cons e es ih =>
    intro st L h1
    simp only [concatEvs, chunkMs_app]
    cases e with
    | chunk t m =>
      have hm1 := h1 m (by simp [chunkMs])
      have hst := concatEv_chunk_st final st t m
      have hlo : (concatEv final st (.chunk t m)).1.lineOff = st.lineOff := by rw [hst]
      rw [concatEv_chunk_ms, List.append_assoc]
      rw [lookupLines_skip L _ _ (fun x hx => by
        intro ⟨_, h2⟩
        split at hx
        · simp only [List.mem_singleton] at hx; subst hx; simp at h2
        · simp at hx)]
      rw [List.singleton_append, lookupLines_cons, ih _ L (fun y hy => h1 y (by simp [chunkMs, hy])), hlo]
      simp only [trMs]
      by_cases hL : st.lineOff < L
      · rw [if_pos hL, if_pos hL, lookupLines_cons]
        have : (m.gl + st.lineOff = L) ↔ (m.gl = L - st.lineOff) := by omega
        simp only [this]
      · rw [if_neg hL, if_neg hL]
        have : ¬ (m.gl + st.lineOff = L ∧ (trans st.sim st.nim m.orig).isSome = true) := by intro h; omega
        rw [if_neg this]
    | source i s c =>
      obtain ⟨d1, _, d3, _, _⟩ := concatEv_decl_ms final st (.source i s c) rfl
      rw [d1, List.nil_append, ih _ L (fun y hy => h1 y (by simpa [chunkMs] using hy)), d3]
      rfl
    | name i n =>
      obtain ⟨d1, _, d3, _, _⟩ := concatEv_decl_ms final st (.name i n) rfl
      rw [d1, List.nil_append, ih _ L (fun y hy => h1 y (by simpa [chunkMs] using hy)), d3]
      rfl

theorem concatChild_lines (final : Bool) (st : CSt) (c : SResult) (L : Nat) (h1 : ∀ m ∈ chunkMs c.evs, 1 ≤ m.gl) :
    lookupLines (chunkMs (concatChild final st c).2) L = if st.lineOff < L then lookupLines (trMs final (childStart st) c.evs) (L - st.lineOff) else none := by
  simp only [concatChild, chunkMs_app]
  rw [lookupLines_append_none L _ _ (fun x hx => by
    intro ⟨_, h2⟩
    split at hx
    · simp only [chunkMs, List.mem_singleton] at hx; subst hx; simp at h2
    · simp [chunkMs] at hx)]
  exact concatEvs_lines final c.evs (childStart st) L h1

/-- what is known about one child in line-granular mode -/
structure ChildOKL (cf cn : SResult) : Prop where
  info : cf.info = cn.info
  linesF : ∀ m ∈ chunkMs cf.evs, 1 ≤ m.gl
  linesN : ∀ m ∈ chunkMs cn.evs, 1 ≤ m.gl
  declF : DeclOK 0 0 cf.evs
  declN : DeclOK 0 0 cn.evs
  decls : declsOf cf.evs = declsOf cn.evs
  look : ∀ L, lookupLines (chunkMs cf.evs) L = lookupLines (chunkMs cn.evs) L

inductive ChildrenOKL : List SResult → List SResult → Prop where
  | nil : ChildrenOKL [] []
  | cons (cf cn : SResult) (cfs cns : List SResult) : ChildOKL cf cn → ChildrenOKL cfs cns → ChildrenOKL (cf :: cfs) (cn :: cns)

/-- **ConcatSource, columns = false**: both modes attribute every generated line alike, and announce the same -/
theorem concatGo_linesModes : ∀ (cfs cns : List SResult), ChildrenOKL cfs cns → ∀ (stF stN : CSt),
    stF.lineOff = stN.lineOff → stF.sourceMapping = stN.sourceMapping → stF.nameMapping = stN.nameMapping →
    (∀ L, lookupLines (chunkMs (concatGo true stF cfs).2) L = lookupLines (chunkMs (concatGo false stN cns).2) L)
    ∧ declsOf (concatGo true stF cfs).2 = declsOf (concatGo false stN cns).2 := by
  intro cfs cns h
  induction h with
  | nil => intro _ _ _ _ _; exact ⟨fun _ => rfl, rfl⟩
  | cons cf cn cfs cns hc _ ih =>
    intro stF stN hlo hsm hnm
    obtain ⟨d1, d2, d3⟩ := concatChild_decls cf cn stF stN hsm hnm hc.decls
    obtain ⟨tF1, _, _, _⟩ := concatChild_state true stF cf
    obtain ⟨tN1, _, _, _⟩ := concatChild_state false stN cn
    have hlo' : (concatChild true stF cf).1.lineOff = (concatChild false stN cn).1.lineOff := by rw [tF1, tN1, hlo, hc.info]
    obtain ⟨i1, i2⟩ := ih _ _ hlo' d2 d3
    have htb := concatEvs_tb_modes cf.evs cn.evs (childStart stF) (childStart stN) (tb_child stF stN hsm hnm) hc.decls
    have hs : (concatEvs true (childStart stF) cf.evs).1.sim = (concatEvs false (childStart stN) cn.evs).1.sim := congrArg Tb.sim htb.1
    refine ⟨fun L => ?_, ?_⟩
    · simp only [concatGo, chunkMs_app]
      rw [lookupLines_append, lookupLines_append, concatChild_lines true stF cf L hc.linesF, concatChild_lines false stN cn L hc.linesN, i1 L, hlo,
        lookupLines_trMs true cf.evs stF hc.declF, lookupLines_trMs false cn.evs stN hc.declN, hs, hc.look]
    · simp only [concatGo, declsOf_append]
      rw [d1, i2]

end Rs
