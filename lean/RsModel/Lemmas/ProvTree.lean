import RsModel.Lemmas.ProvOrig
/-!
# C04: from the chunk stream to the SourceMap, name level

* `attrN` (resolution through the tables announced so far) = resolution through the tables at the end of the stream, for a
  stream that announces each index once, before use (`DeclOK`);
* the `sources` / `sourcesContent` tables of the map `get_map` builds are those end tables (when every file carries content);
* hence the per-byte resolved attribution of the normal stream is the per-byte lookup in the map, resolved through its tables.
-/
namespace Rs

/-! ## end tables -/

theorem tblS_stable : ∀ (evs : List Ev) (ns nn : Nat) (S : SrcTbl), DeclOK ns nn evs → ∀ i, i < ns → tblS S evs i = S i := by
  intro evs
  induction evs with
  | nil => intro ns nn S _ i _; rfl
  | cons e es ih =>
    intro ns nn S hd i hi
    cases e with
    | chunk t m => exact ih ns nn S hd.2 i hi
    | source k s c =>
      obtain ⟨hk, hr⟩ := hd
      simp only [tblS]
      rw [ih (ns + 1) nn _ hr i (by omega)]
      simp only [upd]
      have : i ≠ k := by omega
      simp [this]
    | name k n => exact ih ns (nn + 1) S hd.2 i hi

theorem tblN_stable : ∀ (evs : List Ev) (ns nn : Nat) (N : NameTbl), DeclOK ns nn evs → ∀ i, i < nn → tblN N evs i = N i := by
  intro evs
  induction evs with
  | nil => intro ns nn N _ i _; rfl
  | cons e es ih =>
    intro ns nn N hd i hi
    cases e with
    | chunk t m => exact ih ns nn N hd.2 i hi
    | source k s c => exact ih (ns + 1) nn N hd.2 i hi
    | name k n =>
      obtain ⟨hk, hr⟩ := hd
      simp only [tblN]
      rw [ih ns (nn + 1) _ hr i (by omega)]
      simp only [upd]
      have : i ≠ k := by omega
      simp [this]

/-- resolving at the time of the chunk = resolving through the tables the stream ends with -/
theorem attrN_end_tables : ∀ (evs : List Ev) (ns nn : Nat) (S : SrcTbl) (N : NameTbl), DeclOK ns nn evs →
    attrN S N evs = (attrOf evs).map (Option.map (resolveO (tblS S evs) (tblN N evs))) := by
  intro evs
  induction evs with
  | nil => intro ns nn S N _; rfl
  | cons e es ih =>
    intro ns nn S N hd
    cases e with
    | chunk t m =>
      obtain ⟨hm, hr⟩ := hd
      cases t with
      | none => simp only [attrN, attrOf, tblS, tblN]; exact ih ns nn S N hr
      | some t =>
        simp only [attrN, attrOf, tblS, tblN, List.map_append, List.map_replicate]
        rw [ih ns nn S N hr]
        congr 2
        cases ho : m.orig with
        | none => rfl
        | some o =>
          obtain ⟨h1, h2⟩ := hm o ho
          simp only [Option.map_some, resolveO, Option.some.injEq, RLoc.mk.injEq, true_and]
          refine ⟨(tblS_stable es ns nn S hr _ h1).symm, ?_⟩
          cases hn : o.name with
          | none => rfl
          | some k => simp only [Option.map_some]; rw [tblN_stable es ns nn N hr k (h2 k hn)]
    | source k s c => simp only [attrN, attrOf, tblS, tblN]; exact ih (ns + 1) nn _ N hd.2
    | name k n => simp only [attrN, attrOf, tblS, tblN]; exact ih ns (nn + 1) S _ hd.2

/-! ## the tables of the map -/

/-- every announced file carries its content -/
def AllContent : List Ev → Prop
  | [] => True
  | .source _ _ c :: es => c.isSome = true ∧ AllContent es
  | _ :: es => AllContent es

/-- the map's tables against the stream's end tables -/
def TblRel (a : MapAcc) (S : SrcTbl) (N : NameTbl) (ns nn : Nat) : Prop :=
  a.sources.length = ns ∧ a.contents.length = ns ∧ a.names.length = nn
  ∧ (∀ i, i < ns → S i = (a.sources[i]?).map fun f => (f, a.contents[i]?))
  ∧ (∀ i, i < nn → N i = a.names[i]?)

theorem tblSet_next (tbl : List Text) (v : Text) : tblSet tbl tbl.length v = tbl ++ [v] := by simp [tblSet, lmInsert]

theorem mapAcc_tblRel : ∀ (evs : List Ev) (ns nn : Nat) (a : MapAcc) (S : SrcTbl) (N : NameTbl), DeclOK ns nn evs → AllContent evs →
    TblRel a S N ns nn → TblRel (evs.foldl mapAccEv a) (tblS S evs) (tblN N evs) (ns + cntS evs) (nn + cntN evs) := by
  intro evs
  induction evs with
  | nil => intro ns nn a S N _ _ h; simpa [tblS, tblN, cntS, cntN] using h
  | cons e es ih =>
    intro ns nn a S N hd hc h
    rw [List.foldl_cons]
    obtain ⟨h1, h2, h3, h4, h5⟩ := h
    cases e with
    | chunk t m =>
      have := ih ns nn (mapAccEv a (.chunk t m)) S N hd.2 hc ⟨h1, h2, h3, h4, h5⟩
      simpa [tblS, tblN, cntS, cntN] using this
    | source k s c =>
      obtain ⟨hk, hr⟩ := hd
      obtain ⟨hcs, hcr⟩ := hc
      cases c with
      | none => simp at hcs
      | some cc =>
        have hrel : TblRel (mapAccEv a (.source k s (some cc))) (upd S k (s, some cc)) N (ns + 1) nn := by
          have ek1 : k = a.sources.length := by omega
          have ek2 : k = a.contents.length := by omega
          have t1 : tblSet a.sources k s = a.sources ++ [s] := by rw [ek1]; exact tblSet_next _ _
          have t2 : tblSet a.contents k cc = a.contents ++ [cc] := by rw [ek2]; exact tblSet_next _ _
          simp only [mapAccEv, t1, t2]
          refine ⟨by rw [List.length_append]; simp [h1], by rw [List.length_append]; simp [h2], h3, ?_, h5⟩
          intro i hi
          simp only [upd]
          by_cases hik : i = k
          · have e1 : (a.sources ++ [s])[i]? = some s := by
              rw [show i = a.sources.length by omega]; exact List.getElem?_concat_length
            have e2 : (a.contents ++ [cc])[i]? = some cc := by
              rw [show i = a.contents.length by omega]; exact List.getElem?_concat_length
            rw [if_pos hik, e1, e2]; rfl
          · have hlt : i < ns := by omega
            rw [if_neg hik, h4 i hlt, List.getElem?_append_left (by omega), List.getElem?_append_left (by omega)]
        have := ih (ns + 1) nn _ _ N hr hcr hrel
        simp only [tblS, tblN, cntS, cntN]
        have e : ns + (cntS es + 1) = ns + 1 + cntS es := by omega
        rw [e]; exact this
    | name k n =>
      obtain ⟨hk, hr⟩ := hd
      have hrel : TblRel (mapAccEv a (.name k n)) S (upd N k n) ns (nn + 1) := by
        have ek : k = a.names.length := by omega
        have t1 : tblSet a.names k n = a.names ++ [n] := by rw [ek]; exact tblSet_next _ _
        simp only [mapAccEv, t1]
        refine ⟨h1, h2, by rw [List.length_append]; simp [h3], h4, ?_⟩
        intro i hi
        simp only [upd]
        by_cases hik : i = k
        · have e1 : (a.names ++ [n])[i]? = some n := by
            rw [show i = a.names.length by omega]; exact List.getElem?_concat_length
          rw [if_pos hik, e1]
        · have hlt : i < nn := by omega
          rw [if_neg hik, h5 i hlt, List.getElem?_append_left (by omega)]
      have := ih ns (nn + 1) _ S _ hr hc hrel
      simp only [tblS, tblN, cntS, cntN]
      have e : nn + (cntN es + 1) = nn + 1 + cntN es := by omega
      rw [e]; exact this

/-- the tables of the map depend on the declarations only -/
theorem mapAcc_decls : ∀ (evs : List Ev) (a : MapAcc),
    (evs.foldl mapAccEv a).sources = ((declsOf evs).foldl mapAccEv a).sources
    ∧ (evs.foldl mapAccEv a).contents = ((declsOf evs).foldl mapAccEv a).contents
    ∧ (evs.foldl mapAccEv a).names = ((declsOf evs).foldl mapAccEv a).names := by
  intro evs
  induction evs with
  | nil => intro a; exact ⟨rfl, rfl, rfl⟩
  | cons e es ih =>
    intro a
    cases e with
    | chunk t m =>
      simp only [List.foldl_cons, declsOf]
      -- a chunk touches only `ms`
      have hgen : ∀ (l : List Ev) (b : MapAcc) (x : Mapping), (l.foldl mapAccEv { b with ms := x :: b.ms }).sources = (l.foldl mapAccEv b).sources
          ∧ (l.foldl mapAccEv { b with ms := x :: b.ms }).contents = (l.foldl mapAccEv b).contents
          ∧ (l.foldl mapAccEv { b with ms := x :: b.ms }).names = (l.foldl mapAccEv b).names := by
        intro l
        induction l with
        | nil => intro b x; exact ⟨rfl, rfl, rfl⟩
        | cons y ys ihy =>
          intro b x
          simp only [List.foldl_cons]
          cases y with
          | chunk t' m' =>
            simp only [mapAccEv]
            obtain ⟨p1, p2, p3⟩ := ihy { b with ms := x :: b.ms } m'
            obtain ⟨q1, q2, q3⟩ := ihy b m'
            exact ⟨p1.trans ((ihy b x).1.trans q1.symm), p2.trans ((ihy b x).2.1.trans q2.symm), p3.trans ((ihy b x).2.2.trans q3.symm)⟩
          | source i s c =>
            have e : mapAccEv { b with ms := x :: b.ms } (.source i s c) = { (mapAccEv b (.source i s c)) with ms := x :: (mapAccEv b (.source i s c)).ms } := rfl
            rw [e]; exact ihy _ x
          | name i n =>
            have e : mapAccEv { b with ms := x :: b.ms } (.name i n) = { (mapAccEv b (.name i n)) with ms := x :: (mapAccEv b (.name i n)).ms } := rfl
            rw [e]; exact ihy _ x
      obtain ⟨g1, g2, g3⟩ := hgen (declsOf es) a m
      obtain ⟨i1, i2, i3⟩ := ih (mapAccEv a (.chunk t m))
      simp only [mapAccEv] at i1 i2 i3 ⊢
      exact ⟨i1.trans g1, i2.trans g2, i3.trans g3⟩
    | source i s c => simp only [List.foldl_cons, declsOf]; exact ih _
    | name i n => simp only [List.foldl_cons, declsOf]; exact ih _

end Rs
