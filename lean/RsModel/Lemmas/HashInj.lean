import RsModel.Lemmas.EqHash
/-! # The hasher input separates: self-delimiting records, contexts at every depth -/
namespace Rs

theorem hStrList_inj : ∀ (a b : List Text) (x y : List HCall), hStrList a ++ x = hStrList b ++ y → a = b ∧ x = y := by
  intro a b x y h
  simp only [hStrList, List.cons_append, List.cons.injEq, HCall.usize.injEq] at h
  obtain ⟨hl, h⟩ := h
  induction a generalizing b with
  | nil =>
    cases b with
    | nil => exact ⟨rfl, by simpa using h⟩
    | cons _ _ => simp at hl
  | cons s a ih =>
    cases b with
    | nil => simp at hl
    | cons s' b =>
      simp only [List.map_cons, List.flatten_cons, List.append_assoc] at h
      obtain ⟨e1, e2⟩ := hStr_inj _ _ _ _ h
      obtain ⟨e3, e4⟩ := ih b (by simpa using hl) e2
      exact ⟨by rw [e1, e3], e4⟩

/-- not a `write(&[u8])` call at the head -/
def NoBytesHead (x : List HCall) : Prop := ∀ b t, x ≠ .bytes b :: t

theorem hSMap_inj (m m' : SMap) (x y : List HCall) (hx : NoBytesHead x) (hy : NoBytesHead y)
    (h : hSMap m ++ x = hSMap m' ++ y) : m = m' ∧ x = y := by
  obtain ⟨mp, so, sc, na, fi, ro, db⟩ := m
  obtain ⟨mp', so', sc', na', fi', ro', db'⟩ := m'
  simp only [hSMap, List.append_assoc] at h
  obtain ⟨e1, h1⟩ := hOpt_hStr_inj _ _ _ _ h
  obtain ⟨e2, h2⟩ := hStr_inj _ _ _ _ h1
  obtain ⟨e3, h3⟩ := hStrList_inj _ _ _ _ h2
  obtain ⟨e4, h4⟩ := hStrList_inj _ _ _ _ h3
  obtain ⟨e5, h5⟩ := hStrList_inj _ _ _ _ h4
  obtain ⟨e6, h6⟩ := hOpt_hStr_inj _ _ _ _ h5
  clear h h1 h2 h3 h4 h5
  subst e1 e2 e3 e4 e5 e6
  cases db with
  | none =>
    cases db' with
    | none => exact ⟨rfl, by simpa using h6⟩
    | some d' => simp only [List.nil_append, hStr, List.cons_append] at h6; exact absurd h6 (hx _ _)
  | some d =>
    cases db' with
    | none => simp only [List.nil_append, hStr, List.cons_append] at h6; exact absurd h6.symm (hy _ _)
    | some d' =>
      obtain ⟨e7, h7⟩ := hStr_inj _ _ _ _ h6
      subst e7; exact ⟨rfl, h7⟩

theorem hRepl_inj (r r' : Repl) (x y : List HCall) (h : hRepl r ++ x = hRepl r' ++ y) : r = r' ∧ x = y := by
  obtain ⟨s, e', c, n, f⟩ := r
  obtain ⟨s', e'', c', n', f'⟩ := r'
  simp only [hRepl, List.cons_append, List.nil_append, List.append_assoc, List.cons.injEq, HCall.u32.injEq] at h
  obtain ⟨h1, h2, h3⟩ := h
  obtain ⟨h4, h3⟩ := hStr_inj _ _ _ _ h3
  obtain ⟨h5, h3⟩ := hOpt_hStr_inj _ _ _ _ h3
  simp only [List.cons.injEq, HCall.isize.injEq] at h3
  exact ⟨by simp [h1, h2, h4, h5, h3.1], h3.2⟩

/-- not a `write_u32` call at the head (what follows the replacement records is the inner source's tag or a cached hash) -/
def NoU32Head (x : List HCall) : Prop := ∀ n t, x ≠ .u32 n :: t

theorem hRepls_inj : ∀ (l l' : List Repl) (x y : List HCall), NoU32Head x → NoU32Head y →
    (l.map hRepl).flatten ++ x = (l'.map hRepl).flatten ++ y → l = l' ∧ x = y := by
  intro l
  induction l with
  | nil =>
    intro l' x y hx hy h
    cases l' with
    | nil => exact ⟨rfl, by simpa using h⟩
    | cons r' l' => simp only [List.map_nil, List.flatten_nil, List.nil_append, List.map_cons, List.flatten_cons, hRepl, List.cons_append, List.append_assoc] at h; exact absurd h (hx _ _)
  | cons r l ih =>
    intro l' x y hx hy h
    cases l' with
    | nil => simp only [List.map_nil, List.flatten_nil, List.nil_append, List.map_cons, List.flatten_cons, hRepl, List.cons_append, List.append_assoc] at h; exact absurd h.symm (hy _ _)
    | cons r' l' =>
      simp only [List.map_cons, List.flatten_cons, List.append_assoc] at h
      obtain ⟨e1, h⟩ := hRepl_inj _ _ _ _ h
      obtain ⟨e2, h⟩ := ih l' x y hx hy h
      exact ⟨by rw [e1, e2], h⟩

theorem calls_noU32Head (fxh : List HCall → Nat) (s : Src) : NoU32Head (s.calls fxh) := by
  intro n t
  cases s <;> simp [Src.calls, hStr]

/-! ## contexts -/

def SrcList.append : SrcList → SrcList → SrcList
  | .nil, b => b
  | .cons s r, b => .cons s (r.append b)

theorem SrcList.callsL_append (fxh : List HCall → Nat) : (a b : SrcList) → (a.append b).callsL fxh = a.callsL fxh ++ b.callsL fxh
  | .nil, _ => rfl
  | .cons s r, b => by simp [SrcList.append, SrcList.callsL, SrcList.callsL_append fxh r b]

/-- a tree with one hole -/
inductive Ctx where
  | hole
  | concat (pre : SrcList) (c : Ctx) (post : SrcList)
  | replace (c : Ctx) (rs : List Repl)
  | cached (id : Nat) (c : Ctx)

def Ctx.fill : Ctx → Src → Src
  | .hole, s => s
  | .concat pre c post, s => .concat (pre.append (.cons (c.fill s) post))
  | .replace c rs, s => .replace (c.fill s) rs
  | .cached id c, s => .cached id (c.fill s)

/-- an edit anywhere in a tree shows in the hasher input of the whole tree (`fxh` without collisions: the property's proviso) -/
theorem ctx_calls_inj (fxh : List HCall → Nat) (hinj : ∀ x y, fxh x = fxh y → x = y) (a b : Src) :
    ∀ (c : Ctx), (c.fill a).calls fxh = (c.fill b).calls fxh → a.calls fxh = b.calls fxh := by
  intro c
  induction c with
  | hole => intro h; exact h
  | concat pre c post ih =>
    intro h
    simp only [Ctx.fill, Src.calls, SrcList.callsL_append, SrcList.callsL] at h
    have h1 := List.append_cancel_left (List.append_cancel_left h)
    exact ih (List.append_cancel_right h1)
  | replace c rs ih =>
    intro h
    simp only [Ctx.fill, Src.calls, List.append_assoc] at h
    exact ih (List.append_cancel_left (List.append_cancel_left h))
  | cached id c ih =>
    intro h
    simp only [Ctx.fill, Src.calls, List.cons.injEq, HCall.u64.injEq, and_true] at h
    exact ih (hinj _ _ h)

end Rs
