import RsModel.Lemmas.CodecLookup
import RsModel.Lemmas.ModeTree2
/-! # `get_map` of a tree attributes like its normal stream (T1 ∘ T3 ∘ attr_of_stream) -/
namespace Rs

theorem codec_step (ms : List Mapping) (hs : ∀ m ∈ ms, m.small) (h : sortedFrom 1 0 ms) (l c : Nat) :
    lookupCols (decode (encodeFull ms)) l c = lookupCols ms l c := by
  rw [decode_encode ms hs (linesOK_of_sorted _ 1 0 h)]
  unfold lookupCols
  exact kept_lookupGo l c ms {} none none h ⟨rfl, fun _ => rfl, fun _ => rfl, fun _ => rfl, fun h => by simp at h⟩

theorem attrFrom_nil_ms : ∀ (t : Text) (p : Pos), attrFrom [] p t = List.replicate t.length none := by
  intro t
  induction t with
  | nil => intro p; rfl
  | cons c cs ih => intro p; simp only [attrFrom, ih, List.length_cons, List.replicate_succ]; rfl

theorem getMap_attr (s : Src) (h : s.ModeHyp) (final : Bool) (hsmall : ∀ m ∈ chunkMs (s.stream ⟨true, true⟩ []).1.evs, m.small) :
    (∀ sm, (getMap s ⟨true, final⟩ []).1 = some sm → attrFrom (decode sm.mappings) startPos s.src = attrOf (s.stream ⟨true, false⟩ []).1.evs)
    ∧ ((getMap s ⟨true, final⟩ []).1 = none → attrOf (s.stream ⟨true, false⟩ []).1.evs = List.replicate s.src.length none) := by
  obtain ⟨b1, b2, b3, b4, _, _, _⟩ := Src.base_facts s h
  have hm := Src.m3 s h
  have hN : attrFrom (chunkMs (s.stream ⟨true, false⟩ []).1.evs) startPos s.src = attrOf (s.stream ⟨true, false⟩ []).1.evs := by
    have := attr_of_stream _ b1 b2 b3
    rw [b4] at this
    exact this
  have hFN := (lookEq_iff s.src _ _).1 hm.look
  constructor
  · intro sm hsm
    simp only [getMap] at hsm
    rw [mapOfEvs_mappings _ sm hsm, ← hN, ← hFN]
    apply attrFrom_congr
    intro q _ _
    exact codec_step _ hsmall hm.sorted q.line q.col
  · intro hnone
    simp only [getMap] at hnone
    have henc := mapOfEvs_none _ hnone
    rw [← hN, ← hFN, ← attrFrom_nil_ms s.src startPos]
    apply attrFrom_congr
    intro q _ _
    have := codec_step _ hsmall hm.sorted q.line q.col
    rw [henc] at this
    rw [← this]
    rfl

end Rs
