import RsModel.Lemmas.RootHistoryL
/-!
# Call histories on a CachedSource wrapper whose wrapped tree has CachedSource nodes of its own; both column settings in one history

Calls of an outside caller on the wrapper (and its clones): `map(columns)` / `stream_chunks(columns)` with either column setting,
in any order.  The wrapper's entry for a column setting is filled by the first call with that setting; only that call reaches the
caches inside the wrapped tree, with the keys `(columns, false)` (a stream) or `(columns, true)` (a `map()`, through `get_map`),
which no call with the other column setting touches (`Src.stream_store_opts`).  So the inner caches are cold — for the keys it
uses — whenever a call reaches them (`ColdAt`), it streams the cache-free tree (`Src.stream_stripO`), and every later call with
that column setting is answered from the wrapper's entry alone.
-/
namespace Rs

def keyOf (id : Nat) (c : Bool) : Nat × Opts := (id, ⟨c, false⟩)

def mapFill2 (inner : Src) (c : Bool) : Option SMap := (getMap inner.strip ⟨c, false⟩ []).1
def streamFill2 (inner : Src) (c : Bool) : Option SMap := mapOfEvs c (inner.strip.stream ⟨c, false⟩ []).1.evs

/-- for the column setting `c`: the wrapper's entry is absent and the inner caches are cold for the two keys a first call uses, or
the entry is one of the two fills -/
def Entry2 (id : Nat) (inner : Src) (c : Bool) (σ : Store) : Prop :=
  (σ.get? (keyOf id c) = none ∧ ColdAt σ inner.ids ⟨c, false⟩ ∧ ColdAt σ inner.ids ⟨c, true⟩)
  ∨ σ.get? (keyOf id c) = some (mapFill2 inner c) ∨ σ.get? (keyOf id c) = some (streamFill2 inner c)

def RootInv2 (id : Nat) (inner : Src) (σ : Store) : Prop := ∀ c, Entry2 id inner c σ

structure RootHyp2 (id : Nat) (inner : Src) : Prop where
  nocr : inner.NoCR
  nodup : inner.ids.Nodup
  fresh : id ∉ inner.ids
  isGetMap : ∀ c σ, inner.map ⟨c, false⟩ σ = getMap inner ⟨c, false⟩ σ

theorem get_insertNew_ne (σ : Store) (k k' : Nat × Opts) (v : Option SMap) (h : k ≠ k') : (σ.insertNew k v).get? k' = σ.get? k' :=
  get_insertNew_other σ k k' v h

/-- the state after a call, and which answer it gives, in terms of the cache-free tree -/
theorem rootInv2_step (id : Nat) (inner : Src) (h : RootHyp2 id inner) (σ : Store) (hi : RootInv2 id inner σ) (c : RCall2) :
    RootInv2 id inner (rootCall2 id inner c σ).2
    ∧ (match (rootCall2 id inner c σ).1 with
       | .stream r => r = (inner.strip.stream ⟨c.1, false⟩ []).1
            ∨ (∃ e, (e = mapFill2 inner c.1 ∨ e = streamFill2 inner c.1) ∧ r = (match e with
                | some m => streamSM inner.src m ⟨c.1, false⟩
                | none => streamRaw inner.src ⟨c.1, false⟩))
       | .map m => m = mapFill2 inner c.1 ∨ m = streamFill2 inner c.1) := by
  obtain ⟨col, kind⟩ := c
  have hk : ∀ c', (keyOf id c').1 ∉ inner.ids := fun _ => h.fresh
  -- what a first call with column setting `col` does to the other column setting
  have other : ∀ (o : Opts) (fill : Option SMap), o.columns = col → ∀ c', c' ≠ col → Entry2 id inner c' σ →
      Entry2 id inner c' ((inner.stream o σ).2.insertNew (keyOf id col) fill) := by
    intro o fill ho c' hne he
    have hkey : keyOf id col ≠ keyOf id c' := by
      intro e; simp only [keyOf, Prod.mk.injEq, Opts.mk.injEq, and_true, true_and] at e; exact hne e.symm
    have hget : ((inner.stream o σ).2.insertNew (keyOf id col) fill).get? (keyOf id c') = σ.get? (keyOf id c') := by
      rw [get_insertNew_ne _ _ _ _ hkey, Src.stream_store_other inner o σ _ (hk c')]
    have hcold : ∀ f, ColdAt σ inner.ids ⟨c', f⟩ → ColdAt ((inner.stream o σ).2.insertNew (keyOf id col) fill) inner.ids ⟨c', f⟩ := by
      intro f hc i hi'
      have hne2 : keyOf id col ≠ (i, ⟨c', f⟩) := by
        intro e; simp only [keyOf, Prod.mk.injEq] at e; exact h.fresh (e.1 ▸ hi')
      rw [get_insertNew_ne _ _ _ _ hne2, Src.stream_store_opts inner o σ (i, ⟨c', f⟩) h.nocr (by
        intro e; simp only at e; rw [← e] at ho; simp only at ho; exact hne ho)]
      exact hc i hi'
    rcases he with ⟨e1, e2, e3⟩ | e | e
    · exact Or.inl ⟨by rw [hget]; exact e1, hcold false e2, hcold true e3⟩
    · exact Or.inr (Or.inl (by rw [hget]; exact e))
    · exact Or.inr (Or.inr (by rw [hget]; exact e))
  cases kind with
  | stream =>
    simp only [rootCall2, Src.stream]
    rcases hi col with ⟨h0, hc0, _⟩ | h1 | h2
    · simp only [keyOf] at h0
      rw [h0]
      simp only []
      have hstrip := Src.stream_stripO inner ⟨col, false⟩ σ h.nocr h.nodup hc0
      have hstill : (inner.stream ⟨col, false⟩ σ).2.get? (id, ⟨col, false⟩) = none := by
        rw [Src.stream_store_other inner _ σ (id, ⟨col, false⟩) h.fresh]; exact h0
      refine ⟨fun c' => ?_, Or.inl hstrip⟩
      by_cases hc' : c' = col
      · subst hc'
        refine Or.inr (Or.inr ?_)
        simp only [keyOf]
        rw [insertNew_self _ _ _ hstill, hstrip]
        rfl
      · exact other ⟨col, false⟩ _ rfl c' hc' (hi c')
    · simp only [keyOf] at h1
      rw [h1]
      cases hm : mapFill2 inner col with
      | some sm => exact ⟨hi, Or.inr ⟨some sm, Or.inl rfl, rfl⟩⟩
      | none => exact ⟨hi, Or.inr ⟨none, Or.inl rfl, rfl⟩⟩
    · simp only [keyOf] at h2
      rw [h2]
      cases hm : streamFill2 inner col with
      | some sm => exact ⟨hi, Or.inr ⟨some sm, Or.inr rfl, rfl⟩⟩
      | none => exact ⟨hi, Or.inr ⟨none, Or.inr rfl, rfl⟩⟩
  | map =>
    simp only [rootCall2, Src.map]
    rcases hi col with ⟨h0, _, hc1⟩ | h1 | h2
    · simp only [keyOf] at h0
      rw [h0]
      simp only []
      rw [h.isGetMap col σ]
      have hstrip := Src.stream_stripO inner ⟨col, true⟩ σ h.nocr h.nodup hc1
      have hval : (getMap inner ⟨col, false⟩ σ).1 = mapFill2 inner col := by
        simp only [getMap, mapFill2]; rw [hstrip]
      have hstill : (getMap inner ⟨col, false⟩ σ).2.get? (id, ⟨col, false⟩) = none := by
        simp only [getMap]
        rw [Src.stream_store_other inner _ σ (id, ⟨col, false⟩) h.fresh]; exact h0
      refine ⟨fun c' => ?_, Or.inl hval⟩
      by_cases hc' : c' = col
      · subst hc'
        refine Or.inr (Or.inl ?_)
        simp only [keyOf]
        rw [insertNew_self _ _ _ hstill, hval]
      · have := other ⟨col, true⟩ (getMap inner ⟨col, false⟩ σ).1 rfl c' hc' (hi c')
        simpa [getMap, keyOf] using this
    · simp only [keyOf] at h1
      rw [h1]
      exact ⟨hi, Or.inl rfl⟩
    · simp only [keyOf] at h2
      rw [h2]
      exact ⟨hi, Or.inr rfl⟩

theorem runRoot2_answers (id : Nat) (inner : Src) (h : RootHyp2 id inner) : ∀ (calls : List RCall2) (σ : Store), RootInv2 id inner σ →
    ∀ p ∈ (runRoot2 id inner calls σ).1,
      (match p.2 with
       | .stream r => r = (inner.strip.stream ⟨p.1.1, false⟩ []).1
            ∨ (∃ e, (e = mapFill2 inner p.1.1 ∨ e = streamFill2 inner p.1.1) ∧ r = (match e with
                | some m => streamSM inner.src m ⟨p.1.1, false⟩
                | none => streamRaw inner.src ⟨p.1.1, false⟩))
       | .map m => m = mapFill2 inner p.1.1 ∨ m = streamFill2 inner p.1.1) := by
  intro calls
  induction calls with
  | nil => intro σ _ p hp; simp [runRoot2] at hp
  | cons c cs ih =>
    intro σ hi p hp
    obtain ⟨s1, s2⟩ := rootInv2_step id inner h σ hi c
    simp only [runRoot2, List.mem_cons] at hp
    rcases hp with rfl | hp
    · exact s2
    · exact ih _ s1 p hp

/-- a store cold for the wrapper and for the caches inside the wrapped tree satisfies the invariant -/
theorem rootInv2_cold (id : Nat) (inner : Src) (σ : Store) (h0 : ∀ o, σ.get? (id, o) = none) (hc : Cold σ inner.ids) : RootInv2 id inner σ :=
  fun c => Or.inl ⟨h0 _, cold_coldAt σ _ hc _, cold_coldAt σ _ hc _⟩

/-! ## with `source()` / `buffer()` / `size()` calls interleaved -/

/-- what an answer must be: the views are the wrapped source's; `map` / `stream_chunks` as in `runRoot2_answers` -/
def AnsOK3 (inner : Src) (c : RCall3) (a : RAns3) : Prop :=
  match c, a with
  | .src, .text t => t = inner.src
  | .buffer, .text t => t = inner.buffer
  | .size, .num n => n = inner.size
  | .io c2, .io (.stream r) => r = (inner.strip.stream ⟨c2.1, false⟩ []).1
      ∨ (∃ e, (e = mapFill2 inner c2.1 ∨ e = streamFill2 inner c2.1) ∧ r = (match e with
          | some m => streamSM inner.src m ⟨c2.1, false⟩
          | none => streamRaw inner.src ⟨c2.1, false⟩))
  | .io c2, .io (.map m) => m = mapFill2 inner c2.1 ∨ m = streamFill2 inner c2.1
  | _, _ => False

theorem runRoot3_answers (id : Nat) (inner : Src) (h : RootHyp2 id inner) : ∀ (calls : List RCall3) (σ : Store), RootInv2 id inner σ →
    ∀ p ∈ (runRoot3 id inner calls σ).1, AnsOK3 inner p.1 p.2 := by
  intro calls
  induction calls with
  | nil => intro σ _ p hp; simp [runRoot3] at hp
  | cons c cs ih =>
    intro σ hi p hp
    simp only [runRoot3, List.mem_cons] at hp
    cases c with
    | io c2 =>
      obtain ⟨s1, s2⟩ := rootInv2_step id inner h σ hi c2
      rcases hp with rfl | hp
      · simp only [rootCall3, AnsOK3]
        cases hr : (rootCall2 id inner c2 σ).1 with
        | stream r => rw [hr] at s2; exact s2
        | map m => rw [hr] at s2; exact s2
      · exact ih _ s1 p hp
    | src =>
      rcases hp with rfl | hp
      · simp [rootCall3, AnsOK3, Src.src]
      · exact ih _ hi p hp
    | buffer =>
      rcases hp with rfl | hp
      · simp [rootCall3, AnsOK3, Src.buffer]
      · exact ih _ hi p hp
    | size =>
      rcases hp with rfl | hp
      · simp [rootCall3, AnsOK3, Src.size]
      · exact ih _ hi p hp

end Rs
