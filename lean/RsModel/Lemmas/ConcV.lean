import RsModel.Model.ConcV
import RsModel.Lemmas.Replace
import RsModel.Lemmas.RootNested
/-!
# The value-carrying protocol of concurrent readers: invariants for every interleaving (C18)

* every answer of `sorted_replacement()` is the stably sorted replacement list, every clone is a consistent `RState`;
* **linearisability** of the shared CachedSource: in every reachable state the calls completed so far, in the order of their
  deciding accesses, are a run of the *sequential* model (`runRoot3`) from the initial store, with exactly the answers returned,
  ending in exactly the current store — so everything proved about sequential call histories (C10) holds for the answers of
  concurrent calls;
* a stored entry is never removed or replaced.
-/
namespace Rs.ConcV
open Rs

/-! ## store facts -/

theorem filter_of_get_none (σ : Store) (k : Nat × Opts) (h : σ.get? k = none) : σ.filter (fun e => !(e.1 == k)) = σ := by
  unfold Store.get? at h
  rw [List.filter_eq_self]
  intro e he
  have : σ.find? (fun e => e.1 == k) = none := by
    cases hq : σ.find? (fun e => e.1 == k) with
    | none => rfl
    | some x => rw [hq] at h; simp at h
  rw [List.find?_eq_none] at this
  simpa using this e he

theorem insertForce_of_vacant (σ : Store) (k : Nat × Opts) (v : Option SMap) (h : σ.get? k = none) :
    σ.insertForce k v = σ.insertNew k v := by
  unfold Store.insertForce Store.insertNew
  rw [filter_of_get_none σ k h, h]
  simp

theorem Src.map_nc : ∀ (s : Src) (o : Opts) (σ : Store), s.NoCached → s.map o σ = ((s.map o []).1, σ)
  | .raw .., _, _, _ | .rawStr .., _, _, _ | .rawBuf .., _, _, _ => rfl
  | .orig t n, o, σ, h => by simp only [Src.map]; rw [getMap_nc _ h o σ, getMap_nc _ h o []]
  | .sms t name map origSrc inner remove, o, σ, h => by
    cases inner with
    | none => rfl
    | some im => simp only [Src.map]; rw [getMap_nc _ h o σ, getMap_nc _ h o []]
  | .concat cs, o, σ, h => by simp only [Src.map]; rw [getMap_nc _ h o σ, getMap_nc _ h o []]
  | .replace inner rs, o, σ, h => by
    simp only [Src.map]
    split
    · have hi : inner.NoCached := by simpa [Src.NoCached] using h
      exact Src.map_nc inner o σ hi
    · rw [getMap_nc _ h o σ, getMap_nc _ h o []]
  | .cached _ _, _, _, h => by simp [Src.NoCached] at h

/-- the end of a `map()` that missed is the sequential `map()` on the store as it is then (`or_insert`) -/
theorem mapStore_eq_perform (P : Params) (hnc : P.inner.NoCached) (sh : Shared) (col : Bool) :
    mapStore P sh col = perform P sh (.io (col, .map)) := by
  unfold mapStore perform rootCall3 rootCall2
  simp only [Src.map]
  have hm := Src.map_nc P.inner ⟨col, false⟩ sh.σ hnc
  cases hg : sh.σ.get? (P.id, ⟨col, false⟩) with
  | some v =>
    have h1 : (P.inner.map ⟨col, false⟩ sh.σ).2 = sh.σ := by rw [hm]
    have h2 : sh.σ.insertNew (P.id, ⟨col, false⟩) (P.inner.map ⟨col, false⟩ sh.σ).1 = sh.σ := by
      unfold Store.insertNew; simp [hg]
    simp only [h1, h2, hg, Option.getD_some]
  | none =>
    have h1 : (P.inner.map ⟨col, false⟩ sh.σ).2 = sh.σ := by rw [hm]
    have h3 := insertNew_self sh.σ (P.id, ⟨col, false⟩) (P.inner.map ⟨col, false⟩ sh.σ).1 hg
    simp only [h1, h3, Option.getD_some]

/-- the end of a `stream_chunks` that found its entry vacant is the sequential call, *provided the entry is still vacant* -/
theorem streamStore_eq_perform (P : Params) (hnc : P.inner.NoCached) (sh : Shared) (col : Bool)
    (hv : sh.σ.get? (P.id, ⟨col, false⟩) = none) :
    streamStore P sh col = perform P sh (.io (col, .stream)) := by
  unfold streamStore perform rootCall3 rootCall2
  simp only [Src.stream, hv]
  obtain ⟨h1, _⟩ := Src.stream_nc P.inner ⟨col, false⟩ sh.σ hnc
  rw [h1, insertForce_of_vacant _ _ _ hv]

/-! ## sequential runs -/

theorem runRoot3_append (id : Nat) (inner : Src) (c : RCall3) : ∀ (cs : List RCall3) (σ : Store),
    runRoot3 id inner (cs ++ [c]) σ =
      ((runRoot3 id inner cs σ).1 ++ [(c, (rootCall3 id inner c (runRoot3 id inner cs σ).2).1)],
       (rootCall3 id inner c (runRoot3 id inner cs σ).2).2) := by
  intro cs
  induction cs with
  | nil => intro σ; simp [runRoot3]
  | cons d ds ih => intro σ; simp only [List.cons_append, runRoot3]; rw [ih]

/-- a sequential call never removes or replaces an entry -/
theorem rootCall3_keeps (id : Nat) (inner : Src) (hnc : inner.NoCached) (c : RCall3) (σ : Store) (k : Nat × Opts) (v : Option SMap)
    (h : σ.get? k = some v) : (rootCall3 id inner c σ).2.get? k = some v := by
  cases c with
  | src => exact h
  | buffer => exact h
  | size => exact h
  | io c2 =>
    obtain ⟨col, kind⟩ := c2
    cases kind with
    | stream =>
      simp only [rootCall3, rootCall2, Src.stream]
      cases hg : σ.get? (id, ⟨col, false⟩) with
      | some e => cases e <;> exact h
      | none =>
        simp only []
        rw [(Src.stream_nc inner ⟨col, false⟩ σ hnc).1]
        unfold Store.insertNew; rw [hg]
        simp only [Option.isSome_none, Bool.false_eq_true, if_false]
        unfold Store.get? at h ⊢
        rw [List.find?_append]
        cases hq : List.find? (fun e => e.1 == k) σ with
        | none => rw [hq] at h; simp at h
        | some x => rw [hq] at h; simpa using h
    | map =>
      simp only [rootCall3, rootCall2, Src.map]
      cases hg : σ.get? (id, ⟨col, false⟩) with
      | some e => exact h
      | none =>
        simp only []
        rw [Src.map_nc inner ⟨col, false⟩ σ hnc]
        unfold Store.insertNew; rw [hg]
        simp only [Option.isSome_none, Bool.false_eq_true, if_false]
        unfold Store.get? at h ⊢
        rw [List.find?_append]
        cases hq : List.find? (fun e => e.1 == k) σ with
        | none => rw [hq] at h; simp at h
        | some x => rw [hq] at h; simpa using h

/-! ## invariants -/

/-- what a completed call must have returned -/
def AnsOK (P : Params) (R : List Repl) (sh : Shared) : Ans → Prop
  | .sorted rs => rs = sortRepls R
  | .cloned c => c.repls = R ∧ c.Inv
  | .call c a => (c, a) ∈ sh.log
  | .once v => v = P.hv

structure SInv (P : Params) (R : List Repl) (σ0 : Store) (sh : Shared) : Prop where
  repls : sh.r.repls = R
  flagIdx : sh.r.isSorted = true → sh.r.sorted = sortRepls R
  lockVacant : ∀ c, (sh.lockOf c).isSome = true → sh.σ.get? (P.id, ⟨c, false⟩) = none
  once : sh.once = none ∨ sh.once = some P.hv
  /-- linearisation: the completed CachedSource calls are a sequential run from `σ0` with these answers, ending in this store -/
  lin : runRoot3 P.id P.inner (sh.log.map Prod.fst) σ0 = (sh.log, sh.σ)

structure TInv (P : Params) (R : List Repl) (sh : Shared) (i : Nat) (t : Thread) : Prop where
  outs : ∀ a ∈ t.outs, AnsOK P R sh a
  sorted2 : t.ops.head? = some .sorted → t.pc ≥ 2 → sh.r.sorted = sortRepls R
  clone1 : t.ops.head? = some .clone → t.pc ≥ 1 → t.sawFlag = true → sh.r.sorted = sortRepls R
  clone2 : t.ops.head? = some .clone → t.pc ≥ 2 → t.sawFlag = true → t.gotIdx = sortRepls R
  holder : ∀ c, sh.lockOf c = some i ↔ (t.ops.head? = some (.call (.io (c, .stream))) ∧ t.pc ≥ 1)

/-- what a step of thread `i` may change, as far as the other threads are concerned -/
structure Mono (R : List Repl) (i : Nat) (a b : Shared) : Prop where
  sorted : a.r.sorted = sortRepls R → b.r.sorted = sortRepls R
  log : ∀ x ∈ a.log, x ∈ b.log
  lock : ∀ c j, j ≠ i → (b.lockOf c = some j ↔ a.lockOf c = some j)
  entry : ∀ k v, a.σ.get? k = some v → b.σ.get? k = some v

theorem Mono.refl (R : List Repl) (i : Nat) (a : Shared) : Mono R i a a :=
  ⟨id, fun _ h => h, fun _ _ _ => Iff.rfl, fun _ _ h => h⟩

theorem ansOK_mono (P : Params) (R : List Repl) (i : Nat) (a b : Shared) (hm : Mono R i a b) (x : Ans) (h : AnsOK P R a x) :
    AnsOK P R b x := by
  cases x with
  | sorted rs => exact h
  | cloned c => exact h
  | call c r => exact hm.log _ h
  | once v => exact h

theorem tinv_other (P : Params) (R : List Repl) (sh sh' : Shared) (i j : Nat) (hne : j ≠ i) (t : Thread) (hm : Mono R i sh sh')
    (h : TInv P R sh j t) : TInv P R sh' j t :=
  ⟨fun a ha => ansOK_mono P R i sh sh' hm a (h.outs a ha), fun a b => hm.sorted (h.sorted2 a b),
   fun a b c => hm.sorted (h.clone1 a b c), h.clone2, fun c => (hm.lock c j hne).trans (h.holder c)⟩

/-! lock bookkeeping -/

@[simp] theorem lockOf_setLock (sh : Shared) (c c' : Bool) (v : Option Nat) :
    (sh.setLock c v).lockOf c' = if c = c' then v else sh.lockOf c' := by
  cases c <;> cases c' <;> simp [Shared.setLock, Shared.lockOf]

@[simp] theorem setLock_r (sh : Shared) (c : Bool) (v : Option Nat) : (sh.setLock c v).r = sh.r := by
  cases c <;> rfl
@[simp] theorem setLock_σ (sh : Shared) (c : Bool) (v : Option Nat) : (sh.setLock c v).σ = sh.σ := by
  cases c <;> rfl
@[simp] theorem setLock_log (sh : Shared) (c : Bool) (v : Option Nat) : (sh.setLock c v).log = sh.log := by
  cases c <;> rfl
@[simp] theorem setLock_once (sh : Shared) (c : Bool) (v : Option Nat) : (sh.setLock c v).once = sh.once := by
  cases c <;> rfl

@[simp] theorem perform_lockOf (P : Params) (sh : Shared) (c : RCall3) (col : Bool) : (perform P sh c).1.lockOf col = sh.lockOf col := by
  cases col <;> rfl
@[simp] theorem perform_r (P : Params) (sh : Shared) (c : RCall3) : (perform P sh c).1.r = sh.r := rfl
@[simp] theorem perform_once (P : Params) (sh : Shared) (c : RCall3) : (perform P sh c).1.once = sh.once := rfl
theorem perform_log (P : Params) (sh : Shared) (c : RCall3) : (perform P sh c).1.log = sh.log ++ [(c, (perform P sh c).2)] := rfl
theorem perform_σ (P : Params) (sh : Shared) (c : RCall3) : (perform P sh c).1.σ = (rootCall3 P.id P.inner c sh.σ).2 := rfl

/-- performing a call at its deciding access keeps the shared invariant, and is monotone -/
theorem perform_spec (P : Params) (hnc : P.inner.NoCached) (R : List Repl) (σ0 : Store) (sh : Shared) (i : Nat) (c : RCall3)
    (h : SInv P R σ0 sh)
    (hlock : ∀ col, (sh.lockOf col).isSome = true → (rootCall3 P.id P.inner c sh.σ).2.get? (P.id, ⟨col, false⟩) = none) :
    SInv P R σ0 (perform P sh c).1 ∧ Mono R i sh (perform P sh c).1 ∧ (c, (perform P sh c).2) ∈ (perform P sh c).1.log := by
  refine ⟨⟨h.repls, h.flagIdx, ?_, h.once, ?_⟩, ⟨id, ?_, fun col j _ => by simp, ?_⟩, ?_⟩
  · intro col hl
    rw [perform_lockOf] at hl
    rw [perform_σ]; exact hlock col hl
  · rw [perform_log, List.map_append, List.map_cons, List.map_nil, runRoot3_append, h.lin]
    rfl
  · intro x hx; rw [perform_log]; exact List.mem_append_left _ hx
  · intro k v hk; rw [perform_σ]; exact rootCall3_keeps P.id P.inner hnc c sh.σ k v hk
  · rw [perform_log]; simp

/-- a sequential call changes only the entry of its own key -/
theorem rootCall3_other_key (id : Nat) (inner : Src) (hnc : inner.NoCached) (c : RCall3) (σ : Store) (col : Bool)
    (hc : ∀ k, c = .io (col, k) → False) (h : σ.get? (id, ⟨col, false⟩) = none) :
    (rootCall3 id inner c σ).2.get? (id, ⟨col, false⟩) = none := by
  cases c with
  | src => exact h
  | buffer => exact h
  | size => exact h
  | io c2 =>
    obtain ⟨col2, kind⟩ := c2
    have hne : col2 ≠ col := by intro e; subst e; exact hc kind rfl
    have hk : ((id, (⟨col2, false⟩ : Opts)) : Nat × Opts) ≠ (id, ⟨col, false⟩) := by
      intro e; injection e with _ e; injection e with e; exact hne e
    cases kind with
    | stream =>
      simp only [rootCall3, rootCall2, Src.stream]
      cases hg : σ.get? (id, ⟨col2, false⟩) with
      | some e => cases e <;> exact h
      | none =>
        simp only []
        rw [(Src.stream_nc inner ⟨col2, false⟩ σ hnc).1, get_insertNew_ne _ _ _ _ hk]; exact h
    | map =>
      simp only [rootCall3, rootCall2, Src.map]
      cases hg : σ.get? (id, ⟨col2, false⟩) with
      | some e => exact h
      | none =>
        simp only []
        rw [Src.map_nc inner ⟨col2, false⟩ σ hnc, get_insertNew_ne _ _ _ _ hk]; exact h

end Rs.ConcV

namespace Rs.ConcV
open Rs

@[simp] theorem lockOf_r_update (sh : Shared) (x : RState) (c : Bool) : ({ sh with r := x } : Shared).lockOf c = sh.lockOf c := by
  cases c <;> rfl
@[simp] theorem lockOf_once_update (sh : Shared) (x : Option Nat) (c : Bool) : ({ sh with once := x } : Shared).lockOf c = sh.lockOf c := by
  cases c <;> rfl

/-- the requirement of `perform_spec` from the lock invariant: a call leaves vacant every locked entry other than its own -/
theorem hlock_of (P : Params) (hnc : P.inner.NoCached) (sh : Shared) (c : RCall3) (col' : Bool)
    (hv : sh.σ.get? (P.id, ⟨col', false⟩) = none) (hown : ∀ k, c ≠ .io (col', k)) :
    (rootCall3 P.id P.inner c sh.σ).2.get? (P.id, ⟨col', false⟩) = none :=
  rootCall3_other_key P.id P.inner hnc c sh.σ col' (fun k e => hown k e) hv

/-- the local state after a completed call -/
theorem tinv_finish (P : Params) (R : List Repl) (sh sh' : Shared) (i : Nat) (t : Thread) (a : Ans) (hm : Mono R i sh sh')
    (hT : TInv P R sh i t) (ha : AnsOK P R sh' a) (hl : ∀ c, sh'.lockOf c ≠ some i) : TInv P R sh' i (t.finish a) := by
  refine ⟨?_, ?_, ?_, ?_, ?_⟩
  · intro x hx
    simp only [Thread.finish, List.mem_append, List.mem_singleton] at hx
    rcases hx with hx | rfl
    · exact ansOK_mono P R i sh sh' hm x (hT.outs x hx)
    · exact ha
  · intro _ h; simp [Thread.finish] at h
  · intro _ h; simp [Thread.finish] at h
  · intro _ h; simp [Thread.finish] at h
  · intro c
    constructor
    · intro h; exact absurd h (hl c)
    · intro h; simp [Thread.finish] at h

/-- a step that changes only `pc` / `sawFlag` / `gotIdx` of a thread that does not hold a lock and is not in a `stream_chunks` -/
theorem holder_local (sh : Shared) (i : Nat) (t t' : Thread) (hops : t'.ops = t.ops)
    (hns : ∀ c, t.ops.head? ≠ some (.call (.io (c, .stream))))
    (h : ∀ c, sh.lockOf c = some i ↔ (t.ops.head? = some (.call (.io (c, .stream))) ∧ t.pc ≥ 1)) :
    ∀ c, sh.lockOf c = some i ↔ (t'.ops.head? = some (.call (.io (c, .stream))) ∧ t'.pc ≥ 1) := by
  intro c
  rw [hops]
  constructor
  · intro hl; exact absurd ((h c).mp hl).1 (hns c)
  · intro hr; exact absurd hr.1 (hns c)

/-- a call decided by one access (a hit, a text view, the end of a `map()` that missed), by a thread that holds no entry lock -/
theorem perform_finish_spec (P : Params) (hnc : P.inner.NoCached) (R : List Repl) (σ0 : Store) (sh : Shared) (i : Nat) (t : Thread)
    (c : RCall3) (hS : SInv P R σ0 sh) (hT : TInv P R sh i t) (hnl : ∀ col, sh.lockOf col ≠ some i)
    (hown : ∀ col k, c = .io (col, k) → (sh.lockOf col).isSome = false) :
    SInv P R σ0 (perform P sh c).1 ∧ TInv P R (perform P sh c).1 i (t.finish (.call c (perform P sh c).2))
      ∧ Mono R i sh (perform P sh c).1 := by
  have hl : ∀ col, (sh.lockOf col).isSome = true → (rootCall3 P.id P.inner c sh.σ).2.get? (P.id, ⟨col, false⟩) = none := by
    intro col hsome
    refine hlock_of P hnc sh c col (hS.lockVacant col hsome) ?_
    intro k e
    have := hown col k e
    rw [this] at hsome; cases hsome
  obtain ⟨h1, h2, h3⟩ := perform_spec P hnc R σ0 sh i c hS hl
  refine ⟨h1, tinv_finish P R sh _ i t _ h2 hT h3 ?_, h2⟩
  intro col; rw [perform_lockOf]; exact hnl col

theorem stepThread_spec (P : Params) (hnc : P.inner.NoCached) (R : List Repl) (σ0 : Store) (sh : Shared) (i : Nat) (t : Thread)
    (sh' : Shared) (t' : Thread) (hS : SInv P R σ0 sh) (hT : TInv P R sh i t) (hs : stepThread P sh i t = some (sh', t')) :
    SInv P R σ0 sh' ∧ TInv P R sh' i t' ∧ Mono R i sh sh' := by
  unfold stepThread at hs
  cases hops : t.ops with
  | nil => simp [hops] at hs
  | cons op rest =>
    simp only [hops] at hs
    have hhead : t.ops.head? = some op := by rw [hops]; rfl
    cases op with
    | sorted =>
      have hns : ∀ c, t.ops.head? ≠ some (.call (.io (c, .stream))) := by intro c; rw [hhead]; simp
      have hnl : ∀ c, sh.lockOf c ≠ some i := fun c hl => absurd ((hT.holder c).mp hl).1 (hns c)
      match hpc : t.pc with
      | 0 =>
        simp only [hpc, Option.some.injEq, Prod.mk.injEq] at hs
        obtain ⟨rfl, rfl⟩ := hs
        refine ⟨hS, ⟨hT.outs, ?_, ?_, ?_, holder_local sh i t _ (by exact hops.symm) hns hT.holder⟩, Mono.refl R i sh⟩
        · intro _ hge
          simp only at hge
          by_cases hf : sh.r.isSorted = true
          · exact hS.flagIdx hf
          · simp [hf] at hge
        · intro h; simp at h
        · intro h; simp at h
      | 1 =>
        simp only [hpc, Option.some.injEq, Prod.mk.injEq] at hs
        obtain ⟨rfl, rfl⟩ := hs
        have hsorted : sortRepls sh.r.repls = sortRepls R := by rw [hS.repls]
        have hm : Mono R i sh { sh with r := { sh.r with sorted := sortRepls sh.r.repls } } :=
          ⟨fun _ => hsorted, fun _ h => h, fun c j _ => by simp, fun _ _ h => h⟩
        refine ⟨⟨hS.repls, fun _ => hsorted, ?_, hS.once, hS.lin⟩, ⟨?_, fun _ _ => hsorted, ?_, ?_, ?_⟩, hm⟩
        · intro c hl; simp only [lockOf_r_update] at hl; exact hS.lockVacant c hl
        · intro a ha; exact ansOK_mono P R i sh _ hm a (hT.outs a ha)
        · intro h; simp at h
        · intro h; simp at h
        · intro c; simp only [lockOf_r_update]; have := holder_local sh i t { t with pc := 2 } rfl hns hT.holder c; simpa [hops] using this
      | 2 =>
        simp only [hpc, Option.some.injEq, Prod.mk.injEq] at hs
        obtain ⟨rfl, rfl⟩ := hs
        have hsd := hT.sorted2 hhead (by omega)
        have hm : Mono R i sh { sh with r := { sh.r with isSorted := true } } :=
          ⟨id, fun _ h => h, fun c j _ => by simp, fun _ _ h => h⟩
        refine ⟨⟨hS.repls, fun _ => hsd, ?_, hS.once, hS.lin⟩, ⟨?_, fun _ _ => hsd, ?_, ?_, ?_⟩, hm⟩
        · intro c hl; simp only [lockOf_r_update] at hl; exact hS.lockVacant c hl
        · intro a ha; exact ansOK_mono P R i sh _ hm a (hT.outs a ha)
        · intro h; simp at h
        · intro h; simp at h
        · intro c; simp only [lockOf_r_update]; have := holder_local sh i t { t with pc := 3 } rfl hns hT.holder c; simpa [hops] using this
      | n + 3 =>
        simp only [hpc, Option.some.injEq, Prod.mk.injEq] at hs
        obtain ⟨rfl, rfl⟩ := hs
        exact ⟨hS, tinv_finish P R sh sh i t _ (Mono.refl R i sh) hT (hT.sorted2 hhead (by omega)) hnl, Mono.refl R i sh⟩
    | clone =>
      have hns : ∀ c, t.ops.head? ≠ some (.call (.io (c, .stream))) := by intro c; rw [hhead]; simp
      have hnl : ∀ c, sh.lockOf c ≠ some i := fun c hl => absurd ((hT.holder c).mp hl).1 (hns c)
      match hpc : t.pc with
      | 0 =>
        simp only [hpc, Option.some.injEq, Prod.mk.injEq] at hs
        obtain ⟨rfl, rfl⟩ := hs
        refine ⟨hS, ⟨hT.outs, ?_, ?_, ?_, holder_local sh i t _ (by exact hops.symm) hns hT.holder⟩, Mono.refl R i sh⟩
        · intro h; simp at h
        · intro _ _ hf; exact hS.flagIdx hf
        · intro _ h; simp at h
      | 1 =>
        simp only [hpc, Option.some.injEq, Prod.mk.injEq] at hs
        obtain ⟨rfl, rfl⟩ := hs
        refine ⟨hS, ⟨hT.outs, ?_, ?_, ?_, holder_local sh i t _ (by exact hops.symm) hns hT.holder⟩, Mono.refl R i sh⟩
        · intro h; simp at h
        · intro _ _ hf; exact hT.clone1 hhead (by omega) hf
        · intro _ _ hf; exact hT.clone1 hhead (by omega) hf
      | n + 2 =>
        simp only [hpc, Option.some.injEq, Prod.mk.injEq] at hs
        obtain ⟨rfl, rfl⟩ := hs
        refine ⟨hS, tinv_finish P R sh sh i t _ (Mono.refl R i sh) hT ⟨hS.repls, ?_⟩ hnl, Mono.refl R i sh⟩
        intro hf
        simp only at hf ⊢
        rw [hS.repls]
        exact hT.clone2 hhead (by omega) hf
    | once =>
      have hns : ∀ c, t.ops.head? ≠ some (.call (.io (c, .stream))) := by intro c; rw [hhead]; simp
      have hnl : ∀ c, sh.lockOf c ≠ some i := fun c hl => absurd ((hT.holder c).mp hl).1 (hns c)
      match hpc : t.pc with
      | 0 =>
        simp only [hpc] at hs
        cases ho : sh.once with
        | some v =>
          simp only [ho, Option.some.injEq, Prod.mk.injEq] at hs
          obtain ⟨rfl, rfl⟩ := hs
          have hv : v = P.hv := by rcases hS.once with h | h <;> rw [ho] at h <;> simp at h; exact h
          exact ⟨hS, tinv_finish P R sh sh i t _ (Mono.refl R i sh) hT hv hnl, Mono.refl R i sh⟩
        | none =>
          simp only [ho, Option.some.injEq, Prod.mk.injEq] at hs
          obtain ⟨rfl, rfl⟩ := hs
          refine ⟨hS, ⟨hT.outs, ?_, ?_, ?_, holder_local sh i t _ (by exact hops.symm) hns hT.holder⟩, Mono.refl R i sh⟩
          · intro h; simp at h
          · intro h; simp at h
          · intro h; simp at h
      | n + 1 =>
        simp only [hpc, Option.some.injEq, Prod.mk.injEq] at hs
        obtain ⟨rfl, rfl⟩ := hs
        have hv : sh.once.getD P.hv = P.hv := by rcases hS.once with h | h <;> rw [h] <;> rfl
        have hm : Mono R i sh { sh with once := some (sh.once.getD P.hv) } := ⟨id, fun _ h => h, fun c j _ => by simp, fun _ _ h => h⟩
        refine ⟨⟨hS.repls, hS.flagIdx, ?_, Or.inr (by rw [hv]), hS.lin⟩, tinv_finish P R sh _ i t _ hm hT hv ?_, hm⟩
        · intro c hl; simp only [lockOf_once_update] at hl; exact hS.lockVacant c hl
        · intro c; simp only [lockOf_once_update]; exact hnl c
    | call c =>
      -- not blocked on the entry of column setting `col` means: nobody holds its lock, or this thread does
      have hnb : ∀ col, blocked sh i col = false → (sh.lockOf col).isSome = true → sh.lockOf col = some i := by
        intro col hb hsome
        unfold blocked at hb
        rw [hsome] at hb
        simpa using hb
      cases c with
      | src =>
        have hns : ∀ c, t.ops.head? ≠ some (.call (.io (c, .stream))) := by intro c; rw [hhead]; simp
        have hnl : ∀ c, sh.lockOf c ≠ some i := fun c hl => absurd ((hT.holder c).mp hl).1 (hns c)
        simp only [Option.some.injEq, Prod.mk.injEq] at hs
        obtain ⟨rfl, rfl⟩ := hs
        exact perform_finish_spec P hnc R σ0 sh i t .src hS hT hnl (fun _ _ e => by cases e)
      | buffer =>
        have hns : ∀ c, t.ops.head? ≠ some (.call (.io (c, .stream))) := by intro c; rw [hhead]; simp
        have hnl : ∀ c, sh.lockOf c ≠ some i := fun c hl => absurd ((hT.holder c).mp hl).1 (hns c)
        simp only [Option.some.injEq, Prod.mk.injEq] at hs
        obtain ⟨rfl, rfl⟩ := hs
        exact perform_finish_spec P hnc R σ0 sh i t .buffer hS hT hnl (fun _ _ e => by cases e)
      | size =>
        have hns : ∀ c, t.ops.head? ≠ some (.call (.io (c, .stream))) := by intro c; rw [hhead]; simp
        have hnl : ∀ c, sh.lockOf c ≠ some i := fun c hl => absurd ((hT.holder c).mp hl).1 (hns c)
        simp only [Option.some.injEq, Prod.mk.injEq] at hs
        obtain ⟨rfl, rfl⟩ := hs
        exact perform_finish_spec P hnc R σ0 sh i t .size hS hT hnl (fun _ _ e => by cases e)
      | io c2 =>
        obtain ⟨col, kind⟩ := c2
        cases kind with
        | map =>
          have hns : ∀ c, t.ops.head? ≠ some (.call (.io (c, .stream))) := by intro c; rw [hhead]; simp
          have hnl : ∀ c, sh.lockOf c ≠ some i := fun c hl => absurd ((hT.holder c).mp hl).1 (hns c)
          simp only [] at hs
          by_cases hb : blocked sh i col = true
          · simp [hb] at hs
          · have hb' : blocked sh i col = false := by simpa using hb
            simp only [hb', Bool.false_eq_true, if_false] at hs
            have hown : ∀ col' k, (RCall3.io (col, RCall.map)) = .io (col', k) → (sh.lockOf col').isSome = false := by
              intro col' k e
              injection e with e; injection e with e1 e2; subst e1
              cases hsome : (sh.lockOf col).isSome with
              | false => rfl
              | true => exact absurd (hnb col hb' hsome) (hnl col)
            match hpc : t.pc with
            | 0 =>
              simp only [hpc] at hs
              cases hg : sh.σ.get? (P.id, ⟨col, false⟩) with
              | some e =>
                simp only [hg, Option.some.injEq, Prod.mk.injEq] at hs
                obtain ⟨rfl, rfl⟩ := hs
                exact perform_finish_spec P hnc R σ0 sh i t _ hS hT hnl hown
              | none =>
                simp only [hg, Option.some.injEq, Prod.mk.injEq] at hs
                obtain ⟨rfl, rfl⟩ := hs
                refine ⟨hS, ⟨hT.outs, ?_, ?_, ?_, holder_local sh i t _ (by exact hops.symm) hns hT.holder⟩, Mono.refl R i sh⟩
                · intro h; simp at h
                · intro h; simp at h
                · intro h; simp at h
            | 1 =>
              simp only [hpc, Option.some.injEq, Prod.mk.injEq] at hs
              obtain ⟨rfl, rfl⟩ := hs
              refine ⟨hS, ⟨hT.outs, ?_, ?_, ?_, holder_local sh i t _ (by exact hops.symm) hns hT.holder⟩, Mono.refl R i sh⟩
              · intro h; simp at h
              · intro h; simp at h
              · intro h; simp at h
            | n + 2 =>
              simp only [hpc, Option.some.injEq, Prod.mk.injEq] at hs
              obtain ⟨rfl, rfl⟩ := hs
              rw [mapStore_eq_perform P hnc sh col]
              exact perform_finish_spec P hnc R σ0 sh i t _ hS hT hnl hown
        | stream =>
          simp only [] at hs
          by_cases hb : blocked sh i col = true
          · simp [hb] at hs
          · have hb' : blocked sh i col = false := by simpa using hb
            simp only [hb', Bool.false_eq_true, if_false] at hs
            -- the other column setting's lock is not this thread's: it is in a `stream_chunks(col)`
            have hother : ∀ c, c ≠ col → sh.lockOf c ≠ some i := by
              intro c hne hl
              have := ((hT.holder c).mp hl).1
              rw [hhead] at this
              injection this with this; injection this with this; injection this with this; injection this with e1 _
              exact hne e1.symm
            match hpc : t.pc with
            | 0 =>
              have hnl : ∀ c, sh.lockOf c ≠ some i := fun c hl => by have := ((hT.holder c).mp hl).2; omega
              have hfree : (sh.lockOf col).isSome = false := by
                cases hsome : (sh.lockOf col).isSome with
                | false => rfl
                | true => exact absurd (hnb col hb' hsome) (hnl col)
              simp only [hpc] at hs
              cases hg : sh.σ.get? (P.id, ⟨col, false⟩) with
              | some e =>
                simp only [hg, Option.some.injEq, Prod.mk.injEq] at hs
                obtain ⟨rfl, rfl⟩ := hs
                refine perform_finish_spec P hnc R σ0 sh i t _ hS hT hnl ?_
                intro col' k e
                injection e with e; injection e with e1 e2; subst e1
                exact hfree
              | none =>
                simp only [hg, Option.some.injEq, Prod.mk.injEq] at hs
                obtain ⟨rfl, rfl⟩ := hs
                have hm : Mono R i sh (sh.setLock col (some i)) := by
                  refine ⟨by simp, by simp, ?_, by simp⟩
                  intro c j hj
                  simp only [lockOf_setLock]
                  by_cases hc : col = c
                  · subst hc
                    simp only [if_true]
                    constructor
                    · intro h; injection h with h; exact absurd h.symm hj
                    · intro h; rw [h] at hfree; simp at hfree
                  · simp [hc]
                refine ⟨⟨by simpa using hS.repls, by simpa using hS.flagIdx, ?_, by simpa using hS.once, by simpa using hS.lin⟩, ⟨?_, ?_, ?_, ?_, ?_⟩, hm⟩
                · intro c hl
                  simp only [lockOf_setLock, setLock_σ] at hl ⊢
                  by_cases hc : col = c
                  · subst hc; exact hg
                  · simp only [hc, if_false] at hl; exact hS.lockVacant c hl
                · intro a ha; exact ansOK_mono P R i sh _ hm a (hT.outs a ha)
                · intro h; simp at h
                · intro h; simp at h
                · intro h; simp at h
                · intro c
                  simp only [lockOf_setLock]
                  by_cases hc : col = c
                  · subst hc; simp
                  · simp only [hc, if_false]
                    constructor
                    · intro hl; exact absurd hl (hnl c)
                    · intro hr
                      have := hr.1
                      simp only [List.head?_cons, Option.some.injEq] at this
                      injection this with this; injection this with this; injection this with e1 _
                      exact absurd e1 hc
            | 1 =>
              simp only [hpc, Option.some.injEq, Prod.mk.injEq] at hs
              obtain ⟨rfl, rfl⟩ := hs
              refine ⟨hS, ⟨hT.outs, ?_, ?_, ?_, ?_⟩, Mono.refl R i sh⟩
              · intro h; simp at h
              · intro h; simp at h
              · intro h; simp at h
              · intro c
                have := hT.holder c
                rw [hops, hpc] at this
                simpa using this
            | n + 2 =>
              simp only [hpc, Option.some.injEq, Prod.mk.injEq] at hs
              obtain ⟨rfl, rfl⟩ := hs
              -- this thread holds the lock of `col`, so the entry is still vacant and the unconditional store is the sequential call
              have hheld : sh.lockOf col = some i := (hT.holder col).mpr ⟨hhead, by omega⟩
              have hvac : sh.σ.get? (P.id, ⟨col, false⟩) = none := hS.lockVacant col (by rw [hheld]; rfl)
              rw [streamStore_eq_perform P hnc sh col hvac]
              have hl : ∀ c, c ≠ col → (sh.lockOf c).isSome = true →
                  (rootCall3 P.id P.inner (.io (col, .stream)) sh.σ).2.get? (P.id, ⟨c, false⟩) = none := by
                intro c hne hsome
                refine hlock_of P hnc sh _ c (hS.lockVacant c hsome) ?_
                intro k e
                injection e with e; injection e with e1 _
                exact hne e1.symm
              have hm : Mono R i sh ((perform P sh (.io (col, .stream))).1.setLock col none) := by
                refine ⟨by simp, ?_, ?_, ?_⟩
                · intro x hx; rw [setLock_log, perform_log]; exact List.mem_append_left _ hx
                · intro c j hj
                  simp only [lockOf_setLock, perform_lockOf]
                  by_cases hc : col = c
                  · subst hc
                    simp only [if_true]
                    constructor
                    · intro h; cases h
                    · intro h; rw [hheld] at h; injection h with h; exact absurd h.symm hj
                  · simp [hc]
                · intro k v hk; rw [setLock_σ, perform_σ]; exact rootCall3_keeps P.id P.inner hnc _ sh.σ k v hk
              refine ⟨⟨by simpa using hS.repls, by simpa using hS.flagIdx, ?_, by simpa using hS.once, ?_⟩, ?_, hm⟩
              · intro c hsome
                simp only [lockOf_setLock, perform_lockOf, setLock_σ, perform_σ] at hsome ⊢
                by_cases hc : col = c
                · subst hc; simp at hsome
                · simp only [hc, if_false] at hsome
                  exact hl c (fun e => hc e.symm) hsome
              · rw [setLock_log, setLock_σ, perform_log, List.map_append, List.map_cons, List.map_nil, runRoot3_append, hS.lin]
                rfl
              · refine tinv_finish P R sh _ i t _ hm hT ?_ ?_
                · show (_, _) ∈ ((perform P sh (.io (col, .stream))).1.setLock col none).log
                  rw [setLock_log, perform_log]; simp
                · intro c
                  simp only [lockOf_setLock, perform_lockOf]
                  by_cases hc : col = c
                  · subst hc; simp
                  · simp only [hc, if_false]; exact hother c (fun e => hc e.symm)

end Rs.ConcV

namespace Rs.ConcV
open Rs

/-! ## every reachable state of every interleaving -/

structure Inv (P : Params) (R : List Repl) (σ0 : Store) (s : Sys) : Prop where
  sh : SInv P R σ0 s.sh
  lockValid : ∀ c k, s.sh.lockOf c = some k → k < s.ths.length
  threads : ∀ i (h : i < s.ths.length), TInv P R s.sh i s.ths[i]

theorem step_spec (P : Params) (hnc : P.inner.NoCached) (R : List Repl) (σ0 : Store) (s s' : Sys) (i : Nat)
    (h : Inv P R σ0 s) (hs : step P s i = some s') : Inv P R σ0 s' ∧ Mono R i s.sh s'.sh := by
  unfold step at hs
  cases hti : s.ths[i]? with
  | none => simp [hti] at hs
  | some t =>
    simp only [hti, Option.map_eq_some_iff] at hs
    obtain ⟨⟨sh', t'⟩, hst, rfl⟩ := hs
    have hi : i < s.ths.length := by
      rcases Nat.lt_or_ge i s.ths.length with h | h
      · exact h
      · rw [List.getElem?_eq_none h] at hti; cases hti
    have hget : s.ths[i] = t := by rw [List.getElem?_eq_getElem hi] at hti; injection hti
    obtain ⟨hS', hT', hm⟩ := stepThread_spec P hnc R σ0 s.sh i t sh' t' h.sh (hget ▸ h.threads i hi) hst
    refine ⟨⟨hS', ?_, ?_⟩, hm⟩
    · intro c k hl
      simp only [List.length_set]
      by_cases hki : k = i
      · subst hki; exact hi
      · exact h.lockValid c k ((hm.lock c k hki).mp hl)
    intro j hj
    simp only [List.length_set] at hj
    by_cases hji : j = i
    · subst hji; simp only [List.getElem_set_self]; exact hT'
    · simp only [List.getElem_set_ne (Ne.symm hji)]
      exact tinv_other P R s.sh sh' i j hji _ hm (h.threads j hj)

theorem inv_run (P : Params) (hnc : P.inner.NoCached) (R : List Repl) (σ0 : Store) (sched : List Nat) :
    ∀ s : Sys, Inv P R σ0 s → Inv P R σ0 (run P s sched) := by
  induction sched with
  | nil => intro s h; exact h
  | cons i is ih =>
    intro s h
    simp only [run]
    cases hs : step P s i with
    | none => simpa using ih s h
    | some s' => simpa using ih s' (step_spec P hnc R σ0 s s' i h hs).1

theorem inv_init (P : Params) (r : RState) (hr : r.Inv) (σ : Store) (progs : List (List Op)) :
    Inv P r.repls σ (initSys r σ progs) := by
  refine ⟨⟨rfl, hr, ?_, Or.inl rfl, rfl⟩, ?_, ?_⟩
  · intro c h; cases c <;> simp [initSys, Shared.lockOf] at h
  · intro c k h; cases c <;> simp [initSys, Shared.lockOf] at h
  · intro i hi
    simp only [initSys, List.getElem_map]
    refine ⟨by intro a ha; simp at ha, by intro _ h; simp at h, by intro _ h; simp at h, by intro _ h; simp at h, ?_⟩
    intro c
    cases c <;> simp [Shared.lockOf]

end Rs.ConcV

namespace Rs.ConcV
open Rs

/-- a thread with work left that is not blocked on an entry lock can take a step -/
theorem stepThread_isSome (P : Params) (sh : Shared) (i : Nat) (t : Thread) (hne : t.ops ≠ [])
    (hnb : ∀ col k, t.ops.head? = some (.call (.io (col, k))) → blocked sh i col = false) :
    (stepThread P sh i t).isSome = true := by
  unfold stepThread
  cases hops : t.ops with
  | nil => exact absurd hops hne
  | cons op rest =>
    cases op with
    | sorted => simp only; split <;> rfl
    | clone => simp only; split <;> rfl
    | once => simp only; split <;> (try rfl); split <;> rfl
    | call c =>
      cases c with
      | src => rfl
      | buffer => rfl
      | size => rfl
      | io c2 =>
        obtain ⟨col, kind⟩ := c2
        have hb := hnb col kind (by rw [hops]; rfl)
        cases kind with
        | stream => simp only [hb, Bool.false_eq_true, if_false]; split <;> (try rfl); split <;> rfl
        | map => simp only [hb, Bool.false_eq_true, if_false]; split <;> (try rfl); split <;> rfl

/-- **no deadlock, with both column settings**: in every state satisfying the invariant, if some thread has work left then some
thread can take a step — the holder of an entry lock is never blocked (it waits for no other lock: a `stream_chunks` of a cache-free
wrapped source touches no other entry), and when no lock is held nobody is -/
theorem no_deadlock_of_inv (P : Params) (R : List Repl) (σ0 : Store) (s : Sys) (h : Inv P R σ0 s)
    (hwork : ∃ t ∈ s.ths, t.ops ≠ []) : ∃ i, (step P s i).isSome = true := by
  by_cases hheld : ∃ c k, s.sh.lockOf c = some k
  · obtain ⟨c, k, hl⟩ := hheld
    -- the holder is a live thread in a `stream_chunks(c)` past its first access
    have hk := h.lockValid c k hl
    have hT := h.threads k hk
    have hh := (hT.holder c).mp hl
    refine ⟨k, ?_⟩
    simp only [step, List.getElem?_eq_getElem hk, Option.isSome_map]
    refine stepThread_isSome P s.sh k _ ?_ ?_
    · intro h0; rw [h0] at hh; simp at hh
    · intro col kind hhd
      rw [hh.1] at hhd
      injection hhd with hhd; injection hhd with hhd; injection hhd with hhd; injection hhd with e1 e2
      subst e1
      unfold blocked; rw [hl]; simp
  · obtain ⟨t, ht, hne⟩ := hwork
    obtain ⟨i, hi, rfl⟩ := List.getElem_of_mem ht
    refine ⟨i, ?_⟩
    simp only [step, List.getElem?_eq_getElem hi, Option.isSome_map]
    refine stepThread_isSome P s.sh i _ hne ?_
    intro col kind _
    unfold blocked
    cases hlc : s.sh.lockOf col with
    | none => rfl
    | some j => exact absurd ⟨col, j, hlc⟩ hheld

end Rs.ConcV

namespace Rs.ConcV
open Rs

/-- a stored entry stays what it is along every continuation of the execution -/
theorem entry_run (P : Params) (hnc : P.inner.NoCached) (R : List Repl) (σ0 : Store) (sched : List Nat) :
    ∀ s : Sys, Inv P R σ0 s → ∀ k v, s.sh.σ.get? k = some v → (run P s sched).sh.σ.get? k = some v := by
  induction sched with
  | nil => intro s _ k v h; exact h
  | cons i is ih =>
    intro s h k v hv
    simp only [run]
    cases hs : step P s i with
    | none => simpa using ih s h k v hv
    | some s' =>
      obtain ⟨h', hm⟩ := step_spec P hnc R σ0 s s' i h hs
      simpa using ih s' h' k v (hm.entry k v hv)

theorem run_append (P : Params) (s : Sys) (a b : List Nat) : run P s (a ++ b) = run P (run P s a) b := by
  induction a generalizing s with
  | nil => rfl
  | cons i is ih => simp only [List.cons_append, run]; exact ih _

end Rs.ConcV

namespace Rs.ConcV
open Rs

/-- once the entry for a column setting holds `v`, every `map()` with that setting in a sequential run answers `v` -/
theorem map_answers_from (id : Nat) (inner : Src) (hnc : inner.NoCached) (col : Bool) : ∀ (calls : List RCall3) (σ : Store) (v : Option SMap),
    σ.get? (id, ⟨col, false⟩) = some v →
    ∀ p ∈ (runRoot3 id inner calls σ).1, p.1 = .io (col, .map) → p.2 = .io (.map v) := by
  intro calls
  induction calls with
  | nil => intro σ v _ p hp; simp [runRoot3] at hp
  | cons c cs ih =>
    intro σ v hv p hp hc
    simp only [runRoot3, List.mem_cons] at hp
    rcases hp with rfl | hp
    · simp only at hc
      subst hc
      simp only [rootCall3, rootCall2, Src.map, hv]
    · exact ih _ v (rootCall3_keeps id inner hnc c σ _ v hv) p hp hc

/-- **all `map()` answers for one column setting in a sequential run are the same map**, whatever the store the run starts from -/
theorem map_answers_agree (id : Nat) (inner : Src) (hnc : inner.NoCached) (col : Bool) : ∀ (calls : List RCall3) (σ : Store),
    ∀ p ∈ (runRoot3 id inner calls σ).1, ∀ q ∈ (runRoot3 id inner calls σ).1,
      p.1 = .io (col, .map) → q.1 = .io (col, .map) → p.2 = q.2 := by
  intro calls
  induction calls with
  | nil => intro σ p hp; simp [runRoot3] at hp
  | cons c cs ih =>
    intro σ p hp q hq hpc hqc
    cases hg : σ.get? (id, ⟨col, false⟩) with
    | some v =>
      rw [map_answers_from id inner hnc col _ σ v hg p hp hpc, map_answers_from id inner hnc col _ σ v hg q hq hqc]
    | none =>
      -- a `map(col)` at the head stores its answer
      have hhead : c = .io (col, .map) →
          (rootCall3 id inner c σ).2.get? (id, ⟨col, false⟩) = some ((inner.map ⟨col, false⟩ σ).1)
          ∧ (rootCall3 id inner c σ).1 = .io (.map (inner.map ⟨col, false⟩ σ).1) := by
        intro hc
        subst hc
        simp only [rootCall3, rootCall2, Src.map, hg]
        have hm := Src.map_nc inner ⟨col, false⟩ σ hnc
        have h1 : (inner.map ⟨col, false⟩ σ).2 = σ := by rw [hm]
        rw [h1]
        exact ⟨insertNew_self σ _ _ hg, trivial⟩
      simp only [runRoot3, List.mem_cons] at hp hq
      rcases hp with rfl | hp <;> rcases hq with rfl | hq
      · rfl
      · simp only at hpc
        obtain ⟨h1, h2⟩ := hhead hpc
        rw [map_answers_from id inner hnc col _ _ _ h1 q hq hqc]
        exact h2
      · simp only at hqc
        obtain ⟨h1, h2⟩ := hhead hqc
        rw [map_answers_from id inner hnc col _ _ _ h1 p hp hpc]
        exact h2.symm
      · exact ih _ p hp q hq hpc hqc

end Rs.ConcV
