import RsModel.Model.Json
/-!
# C15 — SourceMap JSON serialisation is valid and round-trips
Document level: the serde shape. String level: escaping is inverted by an RFC 8259 string parser.
-/
namespace Rs.Json

/-- the document `to_json` writes, as a value -/
def toDoc (m : SMap) : JVal :=
  .obj ([(k_version, JVal.num [51])] ++
    (match m.file with | some f => [(k_file, JVal.str f)] | none => []) ++
    [(k_sources, JVal.arr (m.sources.map .str))] ++
    (if allEmpty m.sourcesContent then [] else [(k_sourcesContent, JVal.arr (m.sourcesContent.map .str))]) ++
    [(k_names, JVal.arr (m.names.map .str)), (k_mappings, JVal.str m.mappings)] ++
    (match m.sourceRoot with | some f => [(k_sourceRoot, JVal.str f)] | none => []) ++
    (match m.debugId with | some f => [(k_debugId, JVal.str f)] | none => []))

theorem mapM_str (l : List Text) :
    (l.map JVal.str).mapM (fun v => match v with | .null => some [] | .str s => some s | _ => none) = some l := by
  induction l with
  | nil => rfl
  | cons a as ih => rw [List.map_cons, List.mapM_cons, ih]; rfl

theorem optStrArr_strs (l : List Text) : optStrArr (.arr (l.map .str)) = some l := by
  unfold optStrArr; exact mapM_str l

/-- reading back the written document yields the same mappings, sources, names, file, sourceRoot and debugId,
and the same sourcesContent — empty exactly when all entries are empty (it is then omitted) -/
theorem doc_roundtrip (m : SMap) :
    smapOfJson (toDoc m) = some { m with sourcesContent := if allEmpty m.sourcesContent then [] else m.sourcesContent } := by
  obtain ⟨mappings, sources, sc, names, file, root, dbg⟩ := m
  cases file <;> cases root <;> cases dbg <;> by_cases hc : allEmpty sc = true <;>
    simp [toDoc, smapOfJson, dupKnown, knownKeys, field, hc, optStrArr_strs, optStr, List.find?, List.filter,
      k_version, k_file, k_sources, k_sourcesContent, k_names, k_mappings, k_sourceRoot, k_debugId]

theorem hexVal_hexDigit : ∀ n, n < 16 → hexVal (hexDigit n) = some n := by decide

theorem hex4_ctrl (b : UInt8) (h : b.toNat < 32) (rest : Text) :
    hex4 (48 :: 48 :: hexDigit (b.toNat / 16) :: hexDigit (b.toNat % 16) :: rest) = some (b.toNat, rest) := by
  have h1 := hexVal_hexDigit (b.toNat / 16) (by omega)
  have h2 := hexVal_hexDigit (b.toNat % 16) (by omega)
  have h0 : hexVal 48 = some 0 := by decide
  simp only [hex4, h0, h1, h2, Option.bind_eq_bind, Option.bind_some, Option.pure_def]
  congr 2; omega

/-- one escaped byte is read back as that byte, consuming one unit of fuel -/
theorem parse_escByte (b : UInt8) (fuel : Nat) (acc rest : Text) :
    parseStrBody (fuel + 1) acc (escByte b ++ rest) = parseStrBody fuel (b :: acc) rest := by
  unfold escByte
  split
  · rename_i h; subst h; simp [parseStrBody]
  · split
    · rename_i h; subst h; simp [parseStrBody]
    · split
      · rename_i h; subst h; simp [parseStrBody]
      · split
        · rename_i h; subst h; simp [parseStrBody]
        · split
          · rename_i h; subst h; simp [parseStrBody]
          · split
            · rename_i h; subst h; simp [parseStrBody]
            · split
              · rename_i h; subst h; simp [parseStrBody]
              · split
                · rename_i h34 h92 _ _ _ _ _ hlt
                  have hu : ¬ (0xD800 ≤ b.toNat ∧ b.toNat < 0xDC00) := by omega
                  have hu2 : ¬ (0xDC00 ≤ b.toNat ∧ b.toNat < 0xE000) := by omega
                  have h80 : b.toNat < 0x80 := by omega
                  simp only [List.cons_append, List.nil_append, parseStrBody]
                  simp only [show ((92 : UInt8) = 34) = False by decide, if_false, if_true,
                    show ((117 : UInt8) = 34) = False by decide, show ((117 : UInt8) = 92) = False by decide,
                    show ((117 : UInt8) = 47) = False by decide, show ((117 : UInt8) = 98) = False by decide,
                    show ((117 : UInt8) = 102) = False by decide, show ((117 : UInt8) = 110) = False by decide,
                    show ((117 : UInt8) = 114) = False by decide, show ((117 : UInt8) = 116) = False by decide]
                  rw [hex4_ctrl b hlt]
                  simp only [hu, hu2, if_false, utf8, h80, if_true, List.reverse_cons, List.reverse_nil, List.nil_append,
                    List.singleton_append, UInt8.ofNat_toNat]
                · rename_i h34 h92 _ _ _ _ _ hlt
                  simp only [List.cons_append, List.nil_append, parseStrBody, h34, h92, hlt, if_false]

/-- the string writer is inverted by the RFC 8259 string parser, for every byte string -/
theorem parse_escaped (t : Text) : ∀ (acc rest : Text) (fuel : Nat), t.length + 1 ≤ fuel →
    parseStrBody fuel acc ((t.map escByte).flatten ++ 34 :: rest) = some (acc.reverse ++ t, rest) := by
  induction t with
  | nil =>
    intro acc rest fuel h
    obtain ⟨f, rfl⟩ : ∃ f, fuel = f + 1 := ⟨fuel - 1, by omega⟩
    simp [parseStrBody]
  | cons b t ih =>
    intro acc rest fuel h
    obtain ⟨f, rfl⟩ : ∃ f, fuel = f + 1 := ⟨fuel - 1, by simp at h; omega⟩
    simp only [List.map_cons, List.flatten_cons, List.append_assoc]
    rw [parse_escByte, ih _ _ _ (by simp at h; omega)]
    simp

/-- `unescape ∘ escape = id`: what `to_json` writes for a string is parsed back to exactly that string,
for every byte sequence (quotes, backslashes, control characters, U+2028/2029, astral characters alike) -/
theorem string_roundtrip (t rest : Text) :
    parseVal ((writeStr t ++ rest).length + 2) (writeStr t ++ rest) = some (.str t, rest) := by
  have hlen : t.length ≤ ((t.map escByte).flatten).length := by
    induction t with
    | nil => simp
    | cons b t ih =>
      have : 1 ≤ (escByte b).length := by unfold escByte; repeat (first | split | simp)
      simp only [List.map_cons, List.flatten_cons, List.length_append, List.length_cons]; omega
  simp only [writeStr, List.append_assoc, List.cons_append, List.nil_append, List.length_cons, List.length_append, parseVal, skipWs,
    show isWs 34 = false by decide, Bool.false_eq_true, if_false]
  have h2 : ((t.map escByte).flatten ++ 34 :: rest).length = ((t.map escByte).flatten).length + (rest.length + 1) := by
    rw [List.length_append, List.length_cons]
  rw [parse_escaped t [] rest _ (by omega)]
  simp

end Rs.Json
