import RsModel.Lemmas.Lines
import RsModel.Lemmas.CharStarts
/-! # the map-driven splitters reassemble the text, for ANY map (C01) -/
namespace Rs

/-- byte offset of char index `a`, clamped to the line length -/
def cpos (ln : Text) (a : Nat) : Nat := (charStarts ln).getD a ln.length

theorem cpos_le (ln : Text) (a : Nat) : cpos ln a ≤ ln.length := by
  unfold cpos charStarts
  by_cases h : a < (charStartsFrom 0 ln).length
  · simp only [List.getD_eq_getElem?_getD, List.getElem?_eq_getElem h, Option.getD_some]
    have := (charStartsFrom_bounds ln 0 _ (List.getElem_mem h)).2; omega
  · have : (charStartsFrom 0 ln)[a]? = none := by simp; omega
    simp [List.getD_eq_getElem?_getD, this]

theorem cpos_mono (ln : Text) (a b : Nat) (h : a ≤ b) : cpos ln a ≤ cpos ln b := by
  rcases Nat.eq_or_lt_of_le h with rfl | hlt
  · exact Nat.le_refl _
  · exact (substring_range ln a b hlt).1

theorem charStartsFrom_length_le : ∀ (t : Text) (i : Nat), (charStartsFrom i t).length ≤ t.length := by
  intro t; induction t with
  | nil => intro i; simp [charStartsFrom]
  | cons b bs ih => intro i; simp only [charStartsFrom]; split <;> simp <;> have := ih (i + 1) <;> omega

theorem cpos_big (ln : Text) (a : Nat) (h : ln.length ≤ a) : cpos ln a = ln.length := by
  unfold cpos charStarts
  have := charStartsFrom_length_le ln 0
  have : (charStartsFrom 0 ln)[a]? = none := by simp; omega
  simp [List.getD_eq_getElem?_getD, this]

/-- the line does not begin inside a character (true of every line of a valid UTF-8 text) -/
def startsOK (ln : Text) : Prop := ∀ b rest, ln = b :: rest → isCont b = false

theorem cpos_zero (ln : Text) (h : startsOK ln) : cpos ln 0 = 0 := by
  unfold cpos charStarts
  cases ln with
  | nil => rfl
  | cons b bs => simp [charStartsFrom, h b bs rfl]

/-- `substring(a, b)` is the byte range between the two clamped char offsets -/
theorem csub_eq (ln : Text) (a b : Nat) (h : a ≤ b) : csub ln a b = (ln.take (cpos ln b)).drop (cpos ln a) := by
  unfold csub
  rcases Nat.eq_or_lt_of_le h with rfl | hlt
  · simp
  · have : ¬ b ≤ a := by omega
    simp only [this, if_false, bsub]
    show (ln.drop (cpos ln a)).take (cpos ln b - cpos ln a) = _
    rw [List.drop_take]

/-- text before char index `a`, then `substring(a, b)`, is the text before char index `b` -/
theorem take_csub (ln : Text) (a b : Nat) (h : a ≤ b) : ln.take (cpos ln a) ++ csub ln a b = ln.take (cpos ln b) := by
  rw [csub_eq ln a b h]
  have hm := cpos_mono ln a b h
  conv => rhs; rw [← List.take_append_drop (cpos ln a) (ln.take (cpos ln b))]
  congr 1
  rw [List.take_take]; congr 1; omega

theorem take_csub_max (ln : Text) (a : Nat) (hl : ln.length ≤ USIZE_MAX) : ln.take (cpos ln a) ++ csub ln a USIZE_MAX = ln := by
  by_cases h : a ≤ USIZE_MAX
  · rw [take_csub ln a USIZE_MAX h, cpos_big ln _ hl]; simp
  · have h2 : USIZE_MAX ≤ a := by omega
    simp only [csub, h2, if_true, List.append_nil]
    rw [cpos_big ln a (by omega)]; simp

/-! ## what has been emitted when the walker stands at `(line, col)` -/

def lineAt (lines : List Text) (line : Nat) : Text := lines.getD (line - 1) []

/-- all lines before `line`, then the current line up to char index `col` -/
def emitted (lines : List Text) (line col : Nat) : Text :=
  (lines.take (line - 1)).flatten ++ (lineAt lines line).take (cpos (lineAt lines line) col)

theorem emitted_next_line (lines : List Text) (line : Nat) (h1 : 1 ≤ line) (hn : line ≤ lines.length)
    (hs : ∀ ln ∈ lines, startsOK ln) :
    (lines.take (line - 1)).flatten ++ lineAt lines line = emitted lines (line + 1) 0 := by
  unfold emitted lineAt
  have hlt : line - 1 < lines.length := by omega
  have e1 : line + 1 - 1 = (line - 1) + 1 := by omega
  rw [e1, List.take_succ]
  simp only [List.getD_eq_getElem?_getD, List.getElem?_eq_getElem hlt, Option.getD_some, Option.toList_some, List.flatten_append,
    List.flatten_cons, List.flatten_nil, List.append_nil]
  have hz : cpos (lines[line - 1 + 1]?.getD []) 0 = 0 := by
    apply cpos_zero
    cases hx : lines[line - 1 + 1]? with
    | none => intro b rest h; simp at h
    | some ln => exact hs ln (List.mem_of_getElem? hx)
  rw [hz]; simp

/-- beyond the last line nothing is left: everything has been emitted -/
theorem emitted_beyond (lines : List Text) (line col : Nat) (h : lines.length < line) : emitted lines line col = lines.flatten := by
  unfold emitted lineAt
  have : lines[line - 1]? = none := by simp; omega
  simp [List.getD_eq_getElem?_getD, this, List.take_of_length_le (show lines.length ≤ line - 1 by omega)]

end Rs

namespace Rs

structure WFLines (lines : List Text) : Prop where
  starts : ∀ ln ∈ lines, startsOK ln
  small : ∀ ln ∈ lines, ln.length ≤ USIZE_MAX

theorem lineAt_small (lines : List Text) (h : WFLines lines) (line : Nat) : (lineAt lines line).length ≤ USIZE_MAX := by
  unfold lineAt
  cases hx : lines[line - 1]? with
  | none => simp [List.getD_eq_getElem?_getD, hx, USIZE_MAX]
  | some ln => simpa [List.getD_eq_getElem?_getD, hx] using h.small ln (List.mem_of_getElem? hx)

theorem evsText_optChunk (ch : Text) (m : Mapping) :
    evsText (if ch.isEmpty then [] else [Ev.chunk (some ch) m]) = ch := by
  split
  · rename_i h; simp at h; simp [h, evsText]
  · simp [evsText, Ev.text]

/-- the walker is not behind the mapping -/
def notBehind (s : FullSt) (m : Mapping) : Prop := s.line < m.gl ∨ (s.line = m.gl ∧ s.col ≤ m.gc)

theorem emitted_rest_of_line (lines : List Text) (h : WFLines lines) (line col : Nat) (h1 : 1 ≤ line) (hn : line ≤ lines.length) :
    emitted lines line col ++ csub (lines.getD (line - 1) []) col USIZE_MAX = emitted lines (line + 1) 0 := by
  rw [← emitted_next_line lines line h1 hn h.starts]
  unfold emitted
  rw [List.append_assoc]
  congr 1
  exact take_csub_max _ col (lineAt_small lines h line)

theorem emitted_upto (lines : List Text) (line a b : Nat) (hab : a ≤ b) :
    emitted lines line a ++ csub (lines.getD (line - 1) []) a b = emitted lines line b := by
  unfold emitted
  rw [List.append_assoc]
  congr 1
  exact take_csub _ a b hab

theorem smStep1_spec (lines : List Text) (h : WFLines lines) (s : FullSt) (m : Mapping) (h1 : 1 ≤ s.line) (hb : notBehind s m) :
    emitted lines s.line s.col ++ evsText (smStep1 lines s m).2 = emitted lines (smStep1 lines s m).1.line (smStep1 lines s m).1.col
    ∧ 1 ≤ (smStep1 lines s m).1.line ∧ notBehind (smStep1 lines s m).1 m := by
  unfold smStep1
  by_cases hc : (s.active && decide (s.line ≤ lines.length)) = true
  · simp only [hc, if_true]
    have hn : s.line ≤ lines.length := by simp at hc; exact hc.2
    by_cases hne : (m.gl != s.line) = true
    · simp only [hne, if_true, evsText_optChunk]
      have hlt : s.line < m.gl := by
        simp at hne; rcases hb with hb | hb
        · exact hb
        · exact absurd hb.1.symm hne
      exact ⟨emitted_rest_of_line lines h s.line s.col h1 hn, by simp, Or.elim (Nat.lt_or_ge (s.line + 1) m.gl) Or.inl (fun hge => Or.inr ⟨by simp; omega, by simp⟩)⟩
    · simp only [hne, Bool.false_eq_true, if_false, evsText_optChunk]
      have heq : m.gl = s.line := by simpa using hne
      have hcol : s.col ≤ m.gc := by rcases hb with hb | hb <;> omega
      exact ⟨emitted_upto lines s.line s.col m.gc hcol, h1, Or.inr ⟨heq.symm, Nat.le_refl _⟩⟩
  · simp only [hc, Bool.false_eq_true, if_false, evsText_nil, List.append_nil]
    exact ⟨trivial, h1, hb⟩

theorem smStep2_spec (lines : List Text) (h : WFLines lines) (s : FullSt) (m : Mapping) (h1 : 1 ≤ s.line) (hb : notBehind s m) :
    emitted lines s.line s.col ++ evsText (smStep2 lines s m).2 = emitted lines (smStep2 lines s m).1.line (smStep2 lines s m).1.col
    ∧ 1 ≤ (smStep2 lines s m).1.line ∧ notBehind (smStep2 lines s m).1 m
    ∧ ((smStep2 lines s m).1.line < m.gl → (smStep2 lines s m).1.col = 0) := by
  unfold smStep2
  by_cases hc : (decide (m.gl > s.line) && decide (s.col > 0)) = true
  · simp only [hc, if_true]
    have hgt : s.line < m.gl := by simp at hc; exact hc.1
    refine ⟨?_, by simp, ?_, by simp⟩
    · by_cases hn : s.line ≤ lines.length
      · simp only [hn, if_true, evsText_singleton, Ev.text]
        exact emitted_rest_of_line lines h s.line s.col h1 hn
      · simp only [hn, if_false, evsText_nil, List.append_nil]
        rw [emitted_beyond lines s.line s.col (by omega), emitted_beyond lines (s.line + 1) 0 (by omega)]
    · rcases Nat.lt_or_ge (s.line + 1) m.gl with hx | hx
      · exact Or.inl hx
      · exact Or.inr ⟨by simp; omega, by simp⟩
  · simp only [hc, Bool.false_eq_true, if_false, evsText_nil, List.append_nil]
    refine ⟨trivial, h1, hb, ?_⟩
    intro hlt
    simp at hc
    have := hc hlt
    omega

end Rs

namespace Rs

theorem smWholeLines_nil (lines : List Text) (a b : Nat) (h : b ≤ a) : smWholeLines lines a b = [] := by
  unfold smWholeLines
  have : b - a = 0 := by omega
  simp [this]

theorem smWholeLines_step (lines : List Text) (a b : Nat) (h : a < b) :
    smWholeLines lines a b =
      (if a ≤ lines.length then [Ev.chunk (some (lines.getD (a - 1) [])) ⟨a, 0, none⟩] else []) ++ smWholeLines lines (a + 1) b := by
  unfold smWholeLines
  obtain ⟨k, hk⟩ : ∃ k, b - a = k + 1 := ⟨b - a - 1, by omega⟩
  have hk2 : b - (a + 1) = k := by omega
  rw [hk, hk2, List.range_succ_eq_map, List.map_cons, List.flatten_cons, List.map_map]
  simp only [Nat.add_zero]
  congr 2
  apply List.map_congr_left
  intro x _
  simp only [Function.comp]
  have : a + (x + 1) = a + 1 + x := by omega
  rw [this]

/-- 3. whole unmapped lines: from column 0 of line `a` to column 0 of line `b` -/
theorem smWholeLines_spec (lines : List Text) (h : WFLines lines) : ∀ (k a b : Nat), b - a = k → 1 ≤ a → a ≤ b →
    emitted lines a 0 ++ evsText (smWholeLines lines a b) = emitted lines b 0 := by
  intro k
  induction k with
  | zero => intro a b hk h1 hab; have : a = b := by omega
            subst this; rw [smWholeLines_nil lines a a (Nat.le_refl _)]; simp [evsText_nil]
  | succ k ih =>
    intro a b hk h1 hab
    rw [smWholeLines_step lines a b (by omega), evsText_append, ← List.append_assoc]
    have hstep : emitted lines a 0 ++ evsText (if a ≤ lines.length then [Ev.chunk (some (lines.getD (a - 1) [])) ⟨a, 0, none⟩] else []) = emitted lines (a + 1) 0 := by
      by_cases hn : a ≤ lines.length
      · simp only [hn, if_true, evsText_singleton, Ev.text]
        have := emitted_rest_of_line lines h a 0 h1 hn
        -- `substring(0, MAX)` of a line is the line
        have hz : csub (lines.getD (a - 1) []) 0 USIZE_MAX = lines.getD (a - 1) [] := by
          have := take_csub_max (lineAt lines a) 0 (lineAt_small lines h a)
          have hs : startsOK (lineAt lines a) := by
            unfold lineAt
            cases hx : lines[a - 1]? with
            | none => intro b rest hh; simp [List.getD_eq_getElem?_getD, hx] at hh
            | some ln => simpa [List.getD_eq_getElem?_getD, hx] using h.starts ln (List.mem_of_getElem? hx)
          rw [cpos_zero _ hs] at this
          simpa [lineAt] using this
        rw [hz] at this
        exact this
      · simp only [hn, if_false, evsText_nil, List.append_nil]
        rw [emitted_beyond lines a 0 (by omega), emitted_beyond lines (a + 1) 0 (by omega)]
    rw [hstep]
    exact ih (a + 1) b (by omega) (by omega) (by omega)

theorem smStep4_spec (lines : List Text) (s : FullSt) (m : Mapping) :
    emitted lines s.line s.col ++ evsText (smStep4 lines s m).2 = emitted lines (smStep4 lines s m).1.line (smStep4 lines s m).1.col
    ∧ (smStep4 lines s m).1.line = s.line ∧ m.gc ≤ (smStep4 lines s m).1.col := by
  unfold smStep4
  by_cases hc : m.gc > s.col
  · simp only [hc, if_true]
    refine ⟨?_, trivial, Nat.le_refl _⟩
    by_cases hn : s.line ≤ lines.length
    · simp only [hn, if_true, evsText_singleton, Ev.text]
      exact emitted_upto lines s.line s.col m.gc (by omega)
    · simp only [hn, if_false, evsText_nil, List.append_nil]
      rw [emitted_beyond lines s.line s.col (by omega), emitted_beyond lines s.line m.gc (by omega)]
  · simp only [hc, if_false, evsText_nil, List.append_nil]
    exact ⟨trivial, trivial, by omega⟩

theorem smStep5_pos (fl fc : Nat) (s : FullSt) (m : Mapping) : (smStep5 fl fc s m).line = s.line ∧ (smStep5 fl fc s m).col = s.col := by
  unfold smStep5
  cases m.orig with
  | none => exact ⟨rfl, rfl⟩
  | some o => simp only; split <;> exact ⟨rfl, rfl⟩

/-- the walker is at or beyond the mapping -/
def reached (s : FullSt) (m : Mapping) : Prop := m.gl < s.line ∨ (m.gl = s.line ∧ m.gc ≤ s.col)

/-- one `on_mapping` call: the emitted text grows exactly by the text between the old and the new cursor -/
theorem smFullStep_spec (lines : List Text) (h : WFLines lines) (fl fc : Nat) (s : FullSt) (m : Mapping) (h1 : 1 ≤ s.line) :
    emitted lines s.line s.col ++ evsText (smFullStep lines fl fc s m).2
        = emitted lines (smFullStep lines fl fc s m).1.line (smFullStep lines fl fc s m).1.col
    ∧ 1 ≤ (smFullStep lines fl fc s m).1.line ∧ reached (smFullStep lines fl fc s m).1 m := by
  unfold smFullStep
  by_cases hback : (decide (m.gl < s.line) || (m.gl == s.line && decide (m.gc < s.col))) = true
  · simp only [hback, if_true, evsText_nil, List.append_nil]
    refine ⟨trivial, h1, ?_⟩
    simp at hback
    rcases hback with hb | hb
    · exact Or.inl hb
    · exact Or.inr ⟨hb.1, by omega⟩
  · simp only [hback, Bool.false_eq_true, if_false]
    have hb : notBehind s m := by
      simp at hback
      rcases Nat.lt_or_ge s.line m.gl with hx | hx
      · exact Or.inl hx
      · have : m.gl = s.line := by omega
        exact Or.inr ⟨this.symm, hback.2 this⟩
    obtain ⟨e1, l1, b1⟩ := smStep1_spec lines h s m h1 hb
    obtain ⟨e2, l2, b2, c2⟩ := smStep2_spec lines h (smStep1 lines s m).1 m l1 b1
    -- abbreviations
    generalize hr1 : smStep1 lines s m = r1 at *
    generalize hr2 : smStep2 lines r1.1 m = r2 at *
    have hle : r2.1.line ≤ m.gl := by rcases b2 with b2 | b2 <;> omega
    have hmax : max r2.1.line m.gl = m.gl := by omega
    -- step 3
    have e3 : emitted lines r2.1.line r2.1.col ++ evsText (smWholeLines lines r2.1.line m.gl) = emitted lines m.gl (if r2.1.line < m.gl then 0 else r2.1.col) := by
      by_cases hlt : r2.1.line < m.gl
      · simp only [hlt, if_true]
        rw [c2 hlt]
        exact smWholeLines_spec lines h _ r2.1.line m.gl rfl l2 (by omega)
      · simp only [hlt, if_false]
        have : r2.1.line = m.gl := by omega
        rw [smWholeLines_nil lines _ _ (by omega), evsText_nil, List.append_nil, this]
    have hcol3 : (if r2.1.line < m.gl then 0 else r2.1.col) = r2.1.col := by
      split
      · rename_i hlt; exact (c2 hlt).symm
      · rfl
    rw [hcol3] at e3
    obtain ⟨e4, l4, c4⟩ := smStep4_spec lines { r2.1 with line := max r2.1.line m.gl } m
    obtain ⟨p5l, p5c⟩ := smStep5_pos fl fc (smStep4 lines { r2.1 with line := max r2.1.line m.gl } m).1 m
    refine ⟨?_, ?_, ?_⟩
    · simp only [evsText_append]
      rw [p5l, p5c, ← e4]
      simp only [hmax]
      rw [← e3, ← e2, ← e1]
      simp [List.append_assoc]
    · rw [p5l, l4]; simp only [hmax]; rcases b2 with b2 | b2 <;> omega
    · rw [reached, p5l, p5c, l4]
      simp only [hmax]
      exact Or.inr ⟨trivial, by simpa only [hmax] using c4⟩

end Rs

namespace Rs

/-- the walker's state after a list of mappings -/
def smFullState (lines : List Text) (fl fc : Nat) : FullSt → List Mapping → FullSt
  | s, [] => s
  | s, m :: ms => smFullState lines fl fc (smFullStep lines fl fc s m).1 ms

theorem smFullGo_spec (lines : List Text) (h : WFLines lines) (fl fc : Nat) : ∀ (ms : List Mapping) (s : FullSt), 1 ≤ s.line →
    emitted lines s.line s.col ++ evsText (smFullGo lines fl fc s ms)
        = emitted lines (smFullState lines fl fc s ms).line (smFullState lines fl fc s ms).col
    ∧ 1 ≤ (smFullState lines fl fc s ms).line
    ∧ (∀ m, ms.getLast? = some m → reached (smFullState lines fl fc s ms) m) := by
  intro ms
  induction ms with
  | nil => intro s h1; exact ⟨by simp [smFullGo, smFullState, evsText_nil], h1, by simp⟩
  | cons m rest ih =>
    intro s h1
    obtain ⟨e1, l1, r1⟩ := smFullStep_spec lines h fl fc s m h1
    obtain ⟨e2, l2, r2⟩ := ih (smFullStep lines fl fc s m).1 l1
    refine ⟨?_, l2, ?_⟩
    · simp only [smFullGo, smFullState, evsText_append]
      rw [← List.append_assoc, e1, e2]
    · intro m' hm'
      cases rest with
      | nil =>
        simp only [List.getLast?_singleton, Option.some.injEq] at hm'
        subst hm'
        exact r1
      | cons m2 rest2 => exact r2 m' (by simpa using hm')

/-- once the walker has reached the end position everything has been emitted -/
theorem emitted_final (lines : List Text) (hne : lines ≠ []) (s : FullSt) (h1 : 1 ≤ s.line)
    (hr : reached s ⟨if endsWithNL (lines.getLast?.getD []) then lines.length + 1 else lines.length,
                     if endsWithNL (lines.getLast?.getD []) then 0 else (lines.getLast?.getD []).length, none⟩) :
    emitted lines s.line s.col = lines.flatten := by
  by_cases hnl : endsWithNL (lines.getLast?.getD []) = true
  · simp only [hnl, if_true, reached] at hr
    exact emitted_beyond lines s.line s.col (by omega)
  · simp only [hnl, Bool.false_eq_true, if_false, reached] at hr
    rcases hr with hr | ⟨hl, hc⟩
    · exact emitted_beyond lines s.line s.col hr
    · have hlen : 0 < lines.length := List.length_pos_iff.mpr hne
      have hlast : lines.getLast?.getD [] = lines.getD (s.line - 1) [] := by
        rw [List.getLast?_eq_getElem?, ← hl]; simp [List.getD_eq_getElem?_getD]
      unfold emitted lineAt
      rw [← hlast, cpos_big _ _ hc, List.take_length]
      have : lines.take (s.line - 1) ++ [lines.getLast?.getD []] = lines := by
        rw [hlast, ← hl]
        have hlt : lines.length - 1 < lines.length := by omega
        simp only [List.getD_eq_getElem?_getD, List.getElem?_eq_getElem hlt, Option.getD_some]
        conv => rhs; rw [← List.take_append_drop (lines.length - 1) lines]
        congr 1
        rw [List.drop_eq_getElem_cons hlt]
        simp [show lines.length - 1 + 1 = lines.length by omega]
      conv => rhs; rw [← this]
      simp

def TextOK (t : Text) : Prop := (∀ ln ∈ splitLines t, startsOK ln) ∧ t.length ≤ USIZE_MAX

theorem length_le_flatten (ls : List Text) : ∀ ln ∈ ls, ln.length ≤ ls.flatten.length := by
  induction ls with
  | nil => intro ln h; simp at h
  | cons a as ih =>
    intro ln h
    simp only [List.mem_cons] at h
    rcases h with rfl | h
    · simp
    · have := ih ln h; rw [List.flatten_cons, List.length_append]; omega

theorem wfLines_of_textOK (t : Text) (h : TextOK t) : WFLines (splitLines t) :=
  ⟨h.1, fun ln hln => by have := length_le_flatten _ ln hln; rw [splitLines_join] at this; exact Nat.le_trans this h.2⟩

theorem smSourceEvs_notext (m : SMap) : evsText (smSourceEvs m) = [] := by
  simp only [smSourceEvs, evsText, List.map_map]
  induction List.range m.sources.length with
  | nil => rfl
  | cons a as ih => simp [Ev.text] at ih ⊢

theorem smNameEvs_notext (m : SMap) : evsText (smNameEvs m) = [] := by
  simp only [smNameEvs, evsText, List.map_map]
  induction List.range m.names.length with
  | nil => rfl
  | cons a as ih => simp [Ev.text] at ih ⊢

/-- C01 for a SourceMapSource streamed with columns: the chunks reassemble to the text, for ANY attached map -/
theorem streamSMFull_text (t : Text) (sm : SMap) (h : TextOK t) : evsText (streamSMFull t sm).evs = t := by
  unfold streamSMFull
  by_cases he : (splitLines t).isEmpty = true
  · simp only [he, if_true, evsText_nil]
    have : splitLines t = [] := by simpa using he
    have hj := splitLines_join t
    rw [this] at hj; simpa using hj.symm
  · simp only [he, Bool.false_eq_true, if_false, evsText_append, smSourceEvs_notext, smNameEvs_notext, List.nil_append]
    have hne : splitLines t ≠ [] := by simpa using he
    have hw := wfLines_of_textOK t h
    obtain ⟨e, l, r⟩ := smFullGo_spec (splitLines t) hw _ _ (decode sm.mappings ++ [⟨_, _, none⟩]) {} (by decide)
    have hinit : emitted (splitLines t) ({} : FullSt).line ({} : FullSt).col = [] := by
      unfold emitted lineAt
      have hs : startsOK ((splitLines t).getD 0 []) := by
        cases hx : (splitLines t)[0]? with
        | none => intro b rest hh; simp [List.getD_eq_getElem?_getD, hx] at hh
        | some ln => simpa [List.getD_eq_getElem?_getD, hx] using hw.starts ln (List.mem_of_getElem? hx)
      show (List.take (1 - 1) (splitLines t)).flatten ++ _ = []
      simp only [Nat.sub_self, List.take_zero, List.flatten_nil, List.nil_append]
      rw [cpos_zero _ hs]; simp
    rw [hinit, List.nil_append] at e
    rw [e]
    have hfin := emitted_final (splitLines t) hne _ l (r _ (by simp))
    rw [hfin, splitLines_join]

end Rs

namespace Rs

theorem emitted_whole_line (lines : List Text) (h : WFLines lines) (a : Nat) (h1 : 1 ≤ a) (hn : a ≤ lines.length) :
    emitted lines a 0 ++ lines.getD (a - 1) [] = emitted lines (a + 1) 0 := by
  have := smWholeLines_spec lines h 1 a (a + 1) (by omega) h1 (by omega)
  rw [smWholeLines_step lines a (a + 1) (by omega), smWholeLines_nil lines (a + 1) (a + 1) (Nat.le_refl _)] at this
  simpa [hn, evsText_singleton, Ev.text] using this

theorem smLinesFullGo_spec (lines : List Text) (h : WFLines lines) : ∀ (ms : List Mapping) (cur : Nat), 1 ≤ cur → cur ≤ lines.length + 1 →
    emitted lines cur 0 ++ evsText (smLinesFullGo lines cur ms).1 = emitted lines (smLinesFullGo lines cur ms).2 0
    ∧ 1 ≤ (smLinesFullGo lines cur ms).2 ∧ (smLinesFullGo lines cur ms).2 ≤ lines.length + 1 := by
  intro ms
  induction ms with
  | nil => intro cur h1 h2; exact ⟨by simp [smLinesFullGo, evsText_nil], h1, h2⟩
  | cons m rest ih =>
    intro cur h1 h2
    simp only [smLinesFullGo]
    cases ho : m.orig with
    | none => simpa [ho] using ih cur h1 h2
    | some o =>
      simp only [ho]
      by_cases hskip : (decide (m.gl < cur) || decide (m.gl > lines.length)) = true
      · simp only [hskip, if_true]; exact ih cur h1 h2
      · simp only [hskip, Bool.false_eq_true, if_false]
        have hge : cur ≤ m.gl := by simp at hskip; omega
        have hle : m.gl ≤ lines.length := by simp at hskip; omega
        have hmax : max cur m.gl = m.gl := by omega
        obtain ⟨e, l, u⟩ := ih (max cur m.gl + 1) (by omega) (by omega)
        refine ⟨?_, l, u⟩
        simp only [evsText_append, evsText_cons, Ev.text]
        rw [← List.append_assoc, ← List.append_assoc, smWholeLines_spec lines h _ cur m.gl rfl h1 hge, hmax]
        rw [emitted_whole_line lines h m.gl (by omega) hle]
        simpa [hmax] using e

/-- C01 for a SourceMapSource streamed without columns, for ANY attached map -/
theorem streamSMLinesFull_text (t : Text) (sm : SMap) (h : TextOK t) : evsText (streamSMLinesFull t sm).evs = t := by
  unfold streamSMLinesFull
  by_cases he : (splitLines t).isEmpty = true
  · simp only [he, if_true, evsText_nil]
    have : splitLines t = [] := by simpa using he
    have hj := splitLines_join t
    rw [this] at hj; simpa using hj.symm
  · simp only [he, Bool.false_eq_true, if_false, evsText_append, smSourceEvs_notext, List.nil_append]
    have hw := wfLines_of_textOK t h
    obtain ⟨e, l, u⟩ := smLinesFullGo_spec (splitLines t) hw (decode sm.mappings) 1 (by omega) (by omega)
    have hinit : emitted (splitLines t) 1 0 = [] := by
      unfold emitted lineAt
      have hs : startsOK ((splitLines t).getD 0 []) := by
        cases hx : (splitLines t)[0]? with
        | none => intro b rest hh; simp [List.getD_eq_getElem?_getD, hx] at hh
        | some ln => simpa [List.getD_eq_getElem?_getD, hx] using hw.starts ln (List.mem_of_getElem? hx)
      simp only [Nat.sub_self, List.take_zero, List.flatten_nil, List.nil_append]
      rw [cpos_zero _ hs]; simp
    rw [hinit, List.nil_append] at e
    rw [e, smWholeLines_spec (splitLines t) hw _ _ ((splitLines t).length + 1) rfl l u,
      emitted_beyond _ _ _ (by omega), splitLines_join]

/-- C01 for a SourceMapSource leaf without inner map, both column settings -/
theorem streamSM_text (t : Text) (sm : SMap) (c : Bool) (h : TextOK t) : evsText (streamSM t sm ⟨c, false⟩).evs = t := by
  cases c
  · exact streamSMLinesFull_text t sm h
  · exact streamSMFull_text t sm h

end Rs
