import RsModel.Lemmas.LinesTree
/-! # C10, columns = false: the replay attributes every generated line as the first stream did -/
namespace Rs

theorem keptLines_linesOK : ∀ (ms : List Mapping) (e : LEncSt) (l : Nat), linesOK l ms → linesOK l (keptLines e ms) := by
  intro ms
  induction ms with
  | nil => intro e l _; trivial
  | cons m ms ih =>
    intro e l ⟨h1, h2⟩
    simp only [keptLines]
    split
    · exact ih e l (linesOK_mono h1 ms h2)
    · split
      · exact ih e l (linesOK_mono h1 ms h2)
      · exact ⟨h1, ih _ _ h2⟩

/-- **replay, columns = false**: streaming the text through the line-granular splitter with the map `get_map` built from a stream
`r` of that text attributes every generated line that carries text to the source and original line of `r`'s first mapped chunk
on that line -/
theorem replay_lines (r : SResult) (hp : PosOK r) (hTL : evsTL r.evs = false)
    (hsmall : ∀ m ∈ chunkMs r.evs, ∀ o, m.orig = some o → o.src < U31 ∧ o.line < U31)
    (sm : SMap) (hm : mapOfEvs false r.evs = some sm) (L : Nat) (h1 : 1 ≤ L) (hL : L ≤ (splitLines (evsText r.evs)).length) :
    lookupLines (chunkMs (streamSMLinesFull (evsText r.evs) sm).evs) L = lookupLines (chunkMs r.evs) L := by
  have hsorted : sortedFrom 1 0 (chunkMs r.evs) := chunkMs_sorted r.evs [] hp.1 hTL
  have hlo := linesOK_of_sorted _ 1 0 hsorted
  have hdec : decode sm.mappings = keptLines {} (chunkMs r.evs) := by
    rw [mapOfEvs_mappings_lines _ sm hm]; exact decode_lencode _ hsmall hlo
  unfold streamSMLinesFull
  dsimp only
  split
  · rename_i he
    have : (splitLines (evsText r.evs)).length = 0 := by simpa using he
    omega
  · simp only [chunkMs_app, chunkMs_smSourceEvs, List.nil_append]
    rw [lookupLines_append_none L _ _ (fun x hx => by
      intro ⟨_, h2⟩
      rw [chunkMs_wholeLines _ _ _ x hx] at h2; cases h2)]
    rw [smLinesFullGo_lines (splitLines (evsText r.evs)) _ 1 L (by rw [hdec]; exact keptLines_linesOK _ _ _ (linesOK_mono (Nat.zero_le _) _ hlo)) h1 hL,
      hdec, keptLines_lookup L _ {} (by simp; omega)]

end Rs
