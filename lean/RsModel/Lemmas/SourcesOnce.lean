import RsModel.Lemmas.ProvChunks
import RsModel.Lemmas.CombCompose
/-!
# `sources` lists each file once

A ConcatSource announces a source only when its name is not yet a key of its name-keyed table, and then enters it: whatever its
children stream, every file name is announced at most once, and (the indices being dense: C11) the `sources` table of the
SourceMap built from the stream is exactly that list of announcements.
-/
namespace Rs

def keysOf (m : Assoc) : List Text := m.map (·.1)

theorem assoc_get_none_keys (m : Assoc) (k : Text) : m.get? k = none ↔ k ∉ keysOf m := by
  unfold Assoc.get? keysOf
  induction m with
  | nil => simp
  | cons e es ih =>
    simp only [List.find?_cons, List.map_cons, List.mem_cons, not_or]
    by_cases h : (e.1 == k) = true
    · have : e.1 = k := by simpa using h
      simp [h, this]
    · have hne : ¬ e.1 = k := by simpa using h
      simp only [h, Bool.false_eq_true] 
      rw [ih]
      constructor
      · intro h2; exact ⟨fun h3 => hne h3.symm, h2⟩
      · intro h2; exact h2.2

theorem assoc_insert_absent (m : Assoc) (k : Text) (v : Nat) (h : k ∉ keysOf m) : keysOf (m.insert k v) = keysOf m ++ [k] := by
  unfold Assoc.insert
  have : m.any (·.1 == k) = false := by
    rw [List.any_eq_false]
    intro e he hk
    apply h
    unfold keysOf
    have : e.1 = k := by simpa using hk
    exact List.mem_map.2 ⟨e, he, this⟩
  simp [this, keysOf]

theorem annS_noSrc : ∀ (l : List Ev), NoSrc l → annS l = [] := by
  intro l
  induction l with
  | nil => intro _; rfl
  | cons e es ih =>
    intro h
    have h' : NoSrc es := fun i s c hm => h i s c (List.mem_cons_of_mem _ hm)
    cases e with
    | chunk t m => simp only [annS]; exact ih h'
    | name i n => simp only [annS]; exact ih h'
    | source i s c => exact absurd (List.mem_cons_self) (h i s c)

/-! ## ConcatSource -/

theorem concatEv_keys (final : Bool) (st : CSt) (e : Ev) (hn : (keysOf st.sourceMapping).Nodup) :
    keysOf (concatEv final st e).1.sourceMapping = keysOf st.sourceMapping ++ annS (concatEv final st e).2
    ∧ (keysOf (concatEv final st e).1.sourceMapping).Nodup := by
  cases e with
  | chunk t m =>
    rw [concatEv_chunk_st]
    have : annS (concatEv final st (.chunk t m)).2 = [] := by
      simp only [concatEv]
      rw [annS_append]
      have h1 : ∀ (l : List Ev), (∀ e ∈ l, e.isChunk = true) → annS l = [] := by
        intro l
        induction l with
        | nil => intro _; rfl
        | cons x xs ih => intro h; have := h x (by simp); cases x <;> simp_all [annS, Ev.isChunk]
      rw [h1 _ (by intro e he; split at he <;> simp_all [Ev.isChunk])]
      rw [h1 _ (by intro e he; simp only [List.mem_singleton] at he; subst he; split <;> rfl)]
      rfl
    rw [this]; simp only [List.append_nil]
    exact ⟨trivial, hn⟩
  | source i s c =>
    simp only [concatEv, globalSource]
    cases hg : st.sourceMapping.get? s with
    | some g => simp only [annS, List.append_nil]; exact ⟨trivial, hn⟩
    | none =>
      have hab := (assoc_get_none_keys _ _).1 hg
      simp only [annS]
      rw [assoc_insert_absent _ _ _ hab]
      exact ⟨rfl, by rw [List.nodup_append]; exact ⟨hn, by simp, fun a ha b hb => by simp only [List.mem_singleton] at hb; subst hb; intro e; subst e; exact hab ha⟩⟩
  | name i n =>
    simp only [concatEv, globalName]
    cases hg : st.nameMapping.get? n with
    | some g => simp only [annS, List.append_nil]; exact ⟨trivial, hn⟩
    | none => simp only [annS, List.append_nil]; exact ⟨trivial, hn⟩

theorem concatEvs_keys (final : Bool) : ∀ (evs : List Ev) (st : CSt), (keysOf st.sourceMapping).Nodup →
    keysOf (concatEvs final st evs).1.sourceMapping = keysOf st.sourceMapping ++ annS (concatEvs final st evs).2
    ∧ (keysOf (concatEvs final st evs).1.sourceMapping).Nodup := by
  intro evs
  induction evs with
  | nil => intro st hn; simp only [concatEvs, annS, List.append_nil]; exact ⟨trivial, hn⟩
  | cons e es ih =>
    intro st hn
    obtain ⟨a1, a2⟩ := concatEv_keys final st e hn
    obtain ⟨b1, b2⟩ := ih (concatEv final st e).1 a2
    simp only [concatEvs]
    exact ⟨by rw [b1, a1, annS_append, List.append_assoc], b2⟩

theorem concatChild_keys (final : Bool) (st : CSt) (c : SResult) (hn : (keysOf st.sourceMapping).Nodup) :
    keysOf (concatChild final st c).1.sourceMapping = keysOf st.sourceMapping ++ annS (concatChild final st c).2
    ∧ (keysOf (concatChild final st c).1.sourceMapping).Nodup := by
  obtain ⟨a1, a2⟩ := concatEvs_keys final c.evs { st with sim := [], nim := [], lastMappingLine := 0 } hn
  simp only [concatChild]
  rw [annS_append]
  have : annS (if ((concatEvs final { st with sim := [], nim := [], lastMappingLine := 0 } c.evs).1.needClose && (c.info.line != 1 || c.info.col != 0)) = true
      then [Ev.chunk none ⟨(concatEvs final { st with sim := [], nim := [], lastMappingLine := 0 } c.evs).1.lineOff + 1,
        (concatEvs final { st with sim := [], nim := [], lastMappingLine := 0 } c.evs).1.colOff, none⟩] else []) = [] := by
    split <;> rfl
  rw [this, List.append_nil]
  exact ⟨a1, a2⟩

theorem concatGo_keys (final : Bool) : ∀ (cs : List SResult) (st : CSt), (keysOf st.sourceMapping).Nodup →
    keysOf (concatGo final st cs).1.sourceMapping = keysOf st.sourceMapping ++ annS (concatGo final st cs).2
    ∧ (keysOf (concatGo final st cs).1.sourceMapping).Nodup := by
  intro cs
  induction cs with
  | nil => intro st hn; simp only [concatGo, annS, List.append_nil]; exact ⟨trivial, hn⟩
  | cons c cs ih =>
    intro st hn
    obtain ⟨a1, a2⟩ := concatChild_keys final st c hn
    obtain ⟨b1, b2⟩ := ih (concatChild final st c).1 a2
    simp only [concatGo]
    exact ⟨by rw [b1, a1, annS_append, List.append_assoc], b2⟩

/-- **ConcatSource announces every file name at most once**, whatever its children stream -/
theorem concatStream_annS_nodup (final : Bool) (cs : List SResult) : (annS (concatStream final cs).evs).Nodup := by
  obtain ⟨a1, a2⟩ := concatGo_keys final cs {} (by simp [keysOf])
  simp only [concatStream]
  have : keysOf ({} : CSt).sourceMapping = [] := rfl
  rw [this, List.nil_append] at a1
  rw [← a1]; exact a2

/-! ## ReplaceSource announces what its inner stream announces -/

theorem annS_rEvs : ∀ (evs : List Ev) (st : RSt), annS (rEvs st evs).2 = annS evs := by
  intro evs
  induction evs with
  | nil => intro st; rfl
  | cons e es ih =>
    intro st
    simp only [rEvs, annS_append]
    cases e with
    | chunk t m => simp only [rEv, annS]; rw [annS_noSrc _ (rOnChunk_noSrc _ _ _)]; exact ih _
    | name i n => simp only [rEv, annS]; rw [annS_noSrc _ (globalName_noSrc _ _)]; exact ih _
    | source i s c => simp only [rEv, annS]; rw [ih]; rfl

theorem annS_replaceStream (sorted : List Repl) (inner : SResult) : annS (replaceStream sorted inner).evs = annS inner.evs := by
  simp only [replaceStream, annS_append, annS_rEvs]
  rw [annS_noSrc _ (rRemainder_unmapped _ _ _ _).2, List.append_nil]

/-! ## the `sources` table of the map is the list of announcements -/

theorem mapAcc_sources_annS : ∀ (evs : List Ev) (ns nn : Nat) (a : MapAcc), DeclOK ns nn evs → a.sources.length = ns →
    (evs.foldl mapAccEv a).sources = a.sources ++ annS evs := by
  intro evs
  induction evs with
  | nil => intro ns nn a _ _; simp [annS]
  | cons e es ih =>
    intro ns nn a hd hl
    rw [List.foldl_cons]
    cases e with
    | chunk t m => simp only [annS]; exact ih ns nn _ hd.2 (by simpa [mapAccEv] using hl)
    | name i n => simp only [annS]; exact ih ns (nn + 1) _ (by obtain ⟨_, h2⟩ := hd; exact h2) (by simpa [mapAccEv] using hl)
    | source i s c =>
      obtain ⟨rfl, hd2⟩ := hd
      simp only [annS]
      have hs : (mapAccEv a (.source i s c)).sources = a.sources ++ [s] := by
        simp only [mapAccEv]; rw [← hl]; exact tblSet_next _ _
      rw [ih (i + 1) nn _ hd2 (by rw [hs]; simp [hl]), hs, List.append_assoc]
      rfl

/-! ## trees of OriginalSource / raw leaves under ConcatSource, and a ReplaceSource over them -/

theorem rawChunks_isChunk : ∀ (ls : List Text) (l : Nat), ∀ e ∈ rawChunks l ls, e.isChunk = true := by
  intro ls
  induction ls with
  | nil => intro l e h; cases h
  | cons x xs ih =>
    intro l e h
    simp only [rawChunks, List.mem_cons] at h
    rcases h with rfl | h
    · rfl
    · exact ih _ e h

theorem streamRaw_annS (t : Text) (o : Opts) : annS (streamRaw t o).evs = [] := by
  unfold streamRaw
  split
  · rfl
  · exact annS_chunks _ (rawChunks_isChunk _ _)

theorem origTokChunks_isChunk (final : Bool) : ∀ (toks : List Text) (l c : Nat), ∀ e ∈ (origTokChunks final l c toks).1, e.isChunk = true := by
  intro toks
  induction toks with
  | nil => intro l c e h; simp [origTokChunks] at h
  | cons tok toks ih =>
    intro l c e h
    simp only [origTokChunks, List.mem_append] at h
    rcases h with h | h
    · split at h
      · split at h
        · cases h
        · simp only [List.mem_singleton] at h; subst h; rfl
      · simp only [List.mem_singleton] at h; subst h; rfl
    · split at h <;> exact ih _ _ e h

theorem origLineChunks_isChunk : ∀ (ls : List Text) (l : Nat), ∀ e ∈ origLineChunks l ls, e.isChunk = true := by
  intro ls
  induction ls with
  | nil => intro l e h; cases h
  | cons x xs ih =>
    intro l e h
    simp only [origLineChunks, List.mem_cons] at h
    rcases h with rfl | h
    · rfl
    · exact ih _ e h

theorem origFinalLines_isChunk (a b : Nat) : ∀ e ∈ origFinalLines a b, e.isChunk = true := by
  intro e h
  unfold origFinalLines at h
  obtain ⟨k, _, rfl⟩ := List.mem_map.1 h
  rfl

theorem streamOriginal_annS (t name : Text) (o : Opts) : annS (streamOriginal t name o).evs = [name] := by
  unfold streamOriginal
  dsimp only
  split
  · simp only [annS]; rw [annS_chunks _ (origTokChunks_isChunk _ _ _ _)]
  · split
    · split <;> (simp only [annS]; rw [annS_chunks _ (origFinalLines_isChunk _ _)])
    · simp only [annS]; rw [annS_chunks _ (origLineChunks_isChunk _ _)]

theorem Src.origTree_annS_nodup : ∀ (s : Src) (o : Opts) (σ : Store), s.OrigTree → (annS (s.stream o σ).1.evs).Nodup
  | .raw _ _ lossy, o, σ, _ => by simp only [Src.stream]; rw [streamRaw_annS]; exact List.nodup_nil
  | .rawStr t, o, σ, _ => by simp only [Src.stream]; rw [streamRaw_annS]; exact List.nodup_nil
  | .rawBuf _ lossy, o, σ, _ => by simp only [Src.stream]; rw [streamRaw_annS]; exact List.nodup_nil
  | .orig t name, o, σ, _ => by simp only [Src.stream]; rw [streamOriginal_annS]; simp
  | .sms .., _, _, h | .replace .., _, _, h | .cached .., _, _, h => by simp [Src.OrigTree] at h
  | .concat .nil, o, σ, _ => by simp only [Src.stream]; exact concatStream_annS_nodup _ _
  | .concat (.cons s rest), o, σ, h => by
    simp only [Src.OrigTree, SrcList.OrigTrees] at h
    cases hr : rest with
    | nil => simp only [Src.stream]; exact Src.origTree_annS_nodup s o σ h.1
    | cons s2 rest2 => simp only [Src.stream]; exact concatStream_annS_nodup _ _

/-- … and a ReplaceSource over such a tree announces the same files -/
theorem replace_origTree_annS_nodup (inner : Src) (rs : List Repl) (o : Opts) (σ : Store) (h : inner.OrigTree) :
    (annS ((Src.replace inner rs).stream o σ).1.evs).Nodup := by
  simp only [Src.stream]
  rw [annS_replaceStream]
  exact Src.origTree_annS_nodup inner _ σ h

end Rs
