import RsModel.Lemmas.AttrStream
import RsModel.Lemmas.Codec
import RsModel.Lemmas.PosFinalLeaves
/-!
# final_source mode attributes like normal mode: the leaves (columns = true)

For every position of a character of the text, the lookup ("last chunk mapping on that line at or before the column") in the
chunk mappings of the text-less stream gives the same original location as in the chunk mappings of the normal stream.
-/
namespace Rs

/-- the two mapping lists answer every lookup at a character position of `T` alike -/
def LookEq (T : Text) (A B : List Mapping) : Prop :=
  ∀ j, j < T.length → lookupCols A (adv startPos (T.take j)).line (adv startPos (T.take j)).col
      = lookupCols B (adv startPos (T.take j)).line (adv startPos (T.take j)).col

theorem adv_cons (p : Pos) (c : UInt8) (cs : Text) : adv p (c :: cs) = adv (adv p [c]) cs := by
  have := adv_append p [c] cs
  simpa using this

theorem attrFrom_pointwise (A B : List Mapping) : ∀ (t : Text) (p : Pos),
    attrFrom A p t = attrFrom B p t ↔
    ∀ j, j < t.length → lookupCols A (adv p (t.take j)).line (adv p (t.take j)).col = lookupCols B (adv p (t.take j)).line (adv p (t.take j)).col := by
  intro t
  induction t with
  | nil => intro p; simp [attrFrom]
  | cons c cs ih =>
    intro p
    simp only [attrFrom, List.cons.injEq, ih]
    constructor
    · rintro ⟨h0, hr⟩ j hj
      cases j with
      | zero => simpa [adv] using h0
      | succ j =>
        simp only [List.take_succ_cons]
        rw [adv_cons]
        exact hr j (by simpa using hj)
    · intro h
      refine ⟨by simpa [adv] using h 0 (by simp), fun j hj => ?_⟩
      have := h (j + 1) (by simpa using hj)
      simp only [List.take_succ_cons] at this
      rw [adv_cons] at this
      exact this

theorem lookEq_iff (T : Text) (A B : List Mapping) : LookEq T A B ↔ attrFrom A startPos T = attrFrom B startPos T :=
  (attrFrom_pointwise A B T startPos).symm

/-! ## Raw -/

theorem lookupGo_unmapped (l c : Nat) : ∀ (ms : List Mapping) (acc : Option (Option Orig)), (∀ m ∈ ms, m.orig = none) → acc.join = none →
    (lookupGo l c acc ms).join = none := by
  intro ms
  induction ms with
  | nil => intro acc _ h; exact h
  | cons m ms ih =>
    intro acc h ha
    simp only [lookupGo]
    apply ih _ (fun x hx => h x (by simp [hx]))
    split
    · simp [h m (by simp)]
    · exact ha

theorem chunkMs_rawChunks : ∀ (ls : List Text) (l : Nat), ∀ m ∈ chunkMs (rawChunks l ls), m.orig = none := by
  intro ls
  induction ls with
  | nil => intro l m hm; simp [rawChunks, chunkMs] at hm
  | cons t ts ih =>
    intro l m hm
    simp only [rawChunks, chunkMs, List.mem_cons] at hm
    rcases hm with rfl | hm
    · rfl
    · exact ih _ m hm

theorem streamRaw_lookEq (t : Text) (c : Bool) : LookEq t (chunkMs (streamRaw t ⟨c, true⟩).evs) (chunkMs (streamRaw t ⟨c, false⟩).evs) := by
  intro j _
  simp only [streamRaw, if_true, Bool.false_eq_true, if_false, chunkMs, lookupCols, lookupGo]
  exact (lookupGo_unmapped _ _ _ none (chunkMs_rawChunks _ _) rfl).symm

/-! ## OriginalSource, columns = true -/

/-- a token that is a lone line break stands at the start of a line -/
def NLStart : Bool → List Text → Prop
  | _, [] => True
  | s, tok :: rest => (tok = [NL] → s = true) ∧ NLStart (endsWithNL tok) rest


theorem tokAux_nlstart : ∀ (cs : Text) (b : Bool) (acc : Text) (s : Bool), (∀ x ∈ acc, x ≠ NL) → (b = true → acc ≠ []) → (acc = [] → s = true) →
    NLStart s (tokAux b acc cs) := by
  intro cs
  induction cs with
  | nil =>
    intro b acc s ha _ _
    have hgen : NLStart s (if acc.isEmpty then [] else [acc.reverse]) := by
      split
      · trivial
      · refine ⟨fun h => ?_, trivial⟩
        exfalso
        have : NL ∈ acc := by
          have : NL ∈ acc.reverse := by rw [h]; simp
          simpa using this
        exact ha NL this rfl
    cases b <;> simpa [tokAux] using hgen
  | cons c cs ih =>
    intro b acc s ha hb hs0
    have hcons : ∀ (x : UInt8), x ≠ NL → ∀ y ∈ x :: acc, y ≠ NL := by
      intro x hx y hy
      simp only [List.mem_cons] at hy
      rcases hy with rfl | hy
      · exact hx
      · exact ha y hy
    cases b with
    | false =>
      simp only [tokAux]
      by_cases hst : isStop c = true
      · simp only [hst, Bool.not_true, Bool.false_eq_true, if_false]
        by_cases htl : isTail c = true
        · simp only [htl, if_true]
          exact ih true (c :: acc) s (hcons c (tail_ne_nl _ htl)) (fun _ => by simp) (fun h => by simp at h)
        · simp only [htl, Bool.false_eq_true, if_false]
          have hc : c = NL := stop_nontail_nl c hst (by simpa using htl)
          refine ⟨fun h => ?_, ?_⟩
          · apply hs0
            simp only [List.reverse_cons] at h
            have hl : (acc.reverse ++ [c]).length = 1 := by rw [h]; rfl
            simp at hl
            exact hl
          · rw [List.reverse_cons, hc, endsWithNL_snoc]
            exact ih false [] true (by simp) (fun h => by cases h) (fun _ => rfl)
      · have hs' : isStop c = false := by simpa using hst
        simp only [hs', Bool.not_false, if_true]
        exact ih false (c :: acc) s (hcons c (nonstop_ne_nl _ hs')) (fun h => by cases h) (fun h => by simp at h)
    | true =>
      have hne := hb rfl
      simp only [tokAux]
      by_cases htl : isTail c = true
      · simp only [htl, if_true]
        exact ih true (c :: acc) s (hcons c (tail_ne_nl _ htl)) (fun _ => by simp) (fun h => by simp at h)
      · simp only [htl, Bool.false_eq_true, if_false]
        by_cases hc : c = NL
        · simp only [hc, if_true]
          refine ⟨fun h => ?_, ?_⟩
          · exfalso
            simp only [List.reverse_cons] at h
            have hl : (acc.reverse ++ [NL]).length = 1 := by rw [h]; rfl
            simp at hl
            exact hne hl
          · rw [List.reverse_cons, endsWithNL_snoc]
            exact ih false [] true (by simp) (fun h => by cases h) (fun _ => rfl)
        · simp only [hc, if_false]
          refine ⟨fun h => ?_, ?_⟩
          · exfalso
            have : NL ∈ acc := by
              have : NL ∈ acc.reverse := by rw [h]; simp
              simpa using this
            exact ha NL this rfl
          · exact ih false [c] _ (by simp [hc]) (fun h => by cases h) (fun h => by simp at h)

theorem tokens_nlstart (t : Text) : NLStart true (tokens t) := tokAux_nlstart t false [] true (by simp) (fun h => by cases h) (fun _ => rfl)

theorem chunkMs_app (a b : List Ev) : chunkMs (a ++ b) = chunkMs a ++ chunkMs b := by
  induction a with
  | nil => rfl
  | cons e es ih => cases e <;> simp [chunkMs, ih]

theorem bare_nl (tok : Text) (h1 : endsWithNL tok = true) (h2 : (tok.length == 1) = true) : tok = [NL] := by
  cases tok with
  | nil => simp at h2
  | cons x xs =>
    cases xs with
    | nil => simp [endsWithNL] at h1; rw [h1]
    | cons y ys => simp at h2

theorem origTok_look (L C : Nat) : ∀ (toks : List Text) (l c : Nat) (s : Bool) (accF accN : Option (Option Orig)),
    NLStart s toks → (s = true → c = 0) → ((L > l ∨ (L = l ∧ s = true)) → accF = none ∧ accN = none) → accF.join = accN.join →
    (lookupGo L C accF (chunkMs (origTokChunks true l c toks).1)).join = (lookupGo L C accN (chunkMs (origTokChunks false l c toks).1)).join := by
  intro toks
  induction toks with
  | nil => intro l c s accF accN _ _ _ hj; simpa [origTokChunks, chunkMs, lookupGo] using hj
  | cons tok toks ih =>
    intro l c s accF accN hnl hc hinv hj
    obtain ⟨hn1, hn2⟩ := hnl
    simp only [origTokChunks, chunkMs_app, lookupGo_append, if_true, Bool.false_eq_true, if_false]
    by_cases hbare : (endsWithNL tok && tok.length == 1) = true
    · -- a lone line break: no chunk in final mode, an unmapped chunk in normal mode
      simp only [hbare, if_true, chunkMs, lookupGo]
      simp only [Bool.and_eq_true] at hbare
      have hs : s = true := hn1 (bare_nl tok hbare.1 hbare.2)
      have hc0 := hc hs
      simp only [hbare.1, if_true]
      apply ih (l + 1) 0 (endsWithNL tok) _ _ hn2 (fun _ => rfl)
      · intro hL
        have hLl : L > l := by rcases hL with h | h <;> omega
        obtain ⟨a, b⟩ := hinv (Or.inl hLl)
        refine ⟨a, ?_⟩
        have : ¬ (l = L ∧ c ≤ C) := by omega
        simp [this, b]
      · by_cases hm : l = L ∧ c ≤ C
        · obtain ⟨a, b⟩ := hinv (Or.inr ⟨hm.1.symm, hs⟩)
          simp [hm, a]
        · simp [hm, hj]
    · have hbare' : (endsWithNL tok && tok.length == 1) = false := by simpa using hbare
      simp only [hbare', Bool.false_eq_true, if_false, chunkMs, lookupGo]
      by_cases heol : endsWithNL tok = true
      · simp only [heol, if_true]
        apply ih (l + 1) 0 (endsWithNL tok) _ _ hn2 (fun _ => rfl)
        · intro hL
          have hLl : L > l := by rcases hL with h | h <;> omega
          obtain ⟨a, b⟩ := hinv (Or.inl hLl)
          have : ¬ (l = L ∧ c ≤ C) := by omega
          simp [this, a, b]
        · by_cases hm : l = L ∧ c ≤ C
          · simp [hm]
          · simp [hm, hj]
      · have heol' : endsWithNL tok = false := by simpa using heol
        simp only [heol', Bool.false_eq_true, if_false]
        apply ih l (c + tok.length) (endsWithNL tok) _ _ hn2 (fun h => by rw [heol'] at h; cases h)
        · intro hL
          have hLl : L > l := by
            rcases hL with h | h
            · exact h
            · rw [heol'] at h; cases h.2
          obtain ⟨a, b⟩ := hinv (Or.inl hLl)
          have : ¬ (l = L ∧ c ≤ C) := by omega
          simp [this, a, b]
        · by_cases hm : l = L ∧ c ≤ C
          · simp [hm]
          · simp [hm, hj]

/-- **OriginalSource** (columns = true): the text-less stream answers every lookup like the normal stream -/
theorem streamOriginal_lookAll (t name : Text) (L C : Nat) :
    lookupCols (chunkMs (streamOriginal t name ⟨true, true⟩).evs) L C = lookupCols (chunkMs (streamOriginal t name ⟨true, false⟩).evs) L C := by
  simp only [streamOriginal, if_true, chunkMs, lookupCols]
  exact origTok_look L C (tokens t) 1 0 true none none (tokens_nlstart t) (fun _ => rfl) (fun _ => ⟨rfl, rfl⟩) rfl

theorem streamOriginal_lookEq (t name : Text) :
    LookEq t (chunkMs (streamOriginal t name ⟨true, true⟩).evs) (chunkMs (streamOriginal t name ⟨true, false⟩).evs) :=
  fun _ _ => streamOriginal_lookAll t name _ _

/-! ## SourceMapSource, columns = true -/

theorem smFinalGo_look (r : Info) (L C : Nat) (hq : posLt ⟨L, C⟩ ⟨r.line, r.col⟩) : ∀ (ms : List Mapping) (act : Nat) (accF accM : Option (Option Orig)),
    linesOK act ms → accF.join = accM.join → (accF.join ≠ none → L ≤ act) →
    (lookupGo L C accF (chunkMs (smFinalGo r act ms))).join = (lookupGo L C accM ms).join := by
  intro ms
  induction ms with
  | nil => intro act accF accM _ hj _; simpa [smFinalGo, chunkMs, lookupGo] using hj
  | cons m ms ih =>
    intro act accF accM hl hj hinv
    obtain ⟨hl1, hl2⟩ := hl
    simp only [smFinalGo, lookupGo]
    split
    · -- at or beyond the end of the text: not delivered, and it matches no character position
      rename_i hcond
      have hno : ¬ (m.gl = L ∧ m.gc ≤ C) := by
        simp only [Bool.and_eq_true, Bool.or_eq_true, decide_eq_true_eq] at hcond
        rcases hq with h | h <;> simp only at h <;> omega
      simp only [hno, if_false]
      exact ih act accF accM (linesOK_mono hl1 ms hl2) hj hinv
    · split
      · -- a mapped segment: delivered as it is
        simp only [chunkMs, lookupGo]
        apply ih m.gl _ _ hl2
        · by_cases hm : m.gl = L ∧ m.gc ≤ C <;> simp [hm, hj]
        · intro hne
          by_cases hm : m.gl = L ∧ m.gc ≤ C
          · omega
          · simp only [hm, if_false] at hne
            have := hinv hne; omega
      · rename_i horig
        have ho : m.orig = none := horig
        split
        · -- an unmapped segment after a mapped one on its line: delivered
          rename_i hact
          have hact' : act = m.gl := by simpa using hact
          simp only [chunkMs, lookupGo]
          apply ih act _ _ (hact' ▸ hl2)
          · by_cases hm : m.gl = L ∧ m.gc ≤ C <;> simp [hm, hj, ho]
          · intro hne
            by_cases hm : m.gl = L ∧ m.gc ≤ C
            · simp [hm] at hne
            · simp only [hm, if_false] at hne
              exact hinv hne
        · -- an unmapped segment with no mapped one before it on its line: dropped, and nothing is lost
          rename_i hact
          have hact' : act ≠ m.gl := by simpa using hact
          apply ih act accF _ (linesOK_mono hl1 ms hl2) _ hinv
          by_cases hm : m.gl = L ∧ m.gc ≤ C
          · simp only [hm, and_self, if_true, ho]
            cases hF : accF.join with
            | none => rfl
            | some o =>
              have := hinv (by rw [hF]; simp)
              omega
          · simp [hm, hj]

theorem chunkMs_noChunk (evs : List Ev) (h : ∀ e ∈ evs, e.isChunk = false) : chunkMs evs = [] := by
  induction evs with
  | nil => rfl
  | cons e es ih =>
    cases e with
    | chunk t m => have := h _ (List.mem_cons_self); simp [Ev.isChunk] at this
    | source i s c => simpa [chunkMs] using ih (fun x hx => h x (by simp [hx]))
    | name i n => simpa [chunkMs] using ih (fun x hx => h x (by simp [hx]))

theorem chunkMs_smSourceEvs (sm : SMap) : chunkMs (smSourceEvs sm) = [] :=
  chunkMs_noChunk _ (by intro e he; simp only [smSourceEvs, List.mem_map] at he; obtain ⟨i, _, rfl⟩ := he; rfl)

theorem chunkMs_smNameEvs (sm : SMap) : chunkMs (smNameEvs sm) = [] :=
  chunkMs_noChunk _ (by intro e he; simp only [smNameEvs, List.mem_map] at he; obtain ⟨i, _, rfl⟩ := he; rfl)

theorem linesOK_of_sorted' : ∀ (ms : List Mapping) (l c : Nat), sortedFrom l c ms → linesOK l ms := by
  intro ms
  induction ms with
  | nil => intros; trivial
  | cons m ms ih => intro l c ⟨h1, h2⟩; exact ⟨by omega, ih _ _ h2⟩

/-- a character position lies strictly before the end position -/
theorem charPos_lt_end (t : Text) (j : Nat) (hj : j < t.length) : posLt (adv startPos (t.take j)) (adv startPos t) := by
  have hsplit : t = t.take j ++ t.drop j := (List.take_append_drop j t).symm
  have hd : t.drop j = t[j] :: t.drop (j + 1) := List.drop_eq_getElem_cons hj
  conv => rhs; rw [hsplit, adv_append, hd]
  exact adv_gt _ _ _

/-- the text-less stream of a SourceMapSource answers every lookup at a character position as the map itself does -/
theorem streamSMFinal_lookEq (t : Text) (sm : SMap) (hs : sortedFrom 1 0 (decode sm.mappings)) :
    LookEq t (chunkMs (streamSMFinal t sm).evs) (decode sm.mappings) := by
  intro j hj
  have hlt := charPos_lt_end t j hj
  rw [← genInfo_adv t] at hlt
  unfold streamSMFinal
  dsimp only
  split
  · rename_i h0
    exfalso
    simp only [Bool.and_eq_true, beq_iff_eq] at h0
    have hge := adv_ge (t.take j) startPos
    have e1 : startPos.line = 1 := rfl
    have e2 : startPos.col = 0 := rfl
    rcases hlt with h | h <;> rcases hge with g | g <;> omega
  · simp only [chunkMs_app, chunkMs_smSourceEvs, chunkMs_smNameEvs, List.nil_append, lookupCols]
    exact smFinalGo_look (genInfo t) _ _ hlt _ 0 none none (linesOK_mono (Nat.zero_le _) _ (linesOK_of_sorted' _ _ _ hs)) rfl (fun h => absurd rfl h)

/-- … and so does the normal stream (this is C08's attribution theorem read as a statement about lookups) -/
theorem streamSMFull_lookEq (t : Text) (sm : SMap) (ha : IsAscii t) (hl : t.length ≤ USIZE_MAX) (hs : sortedFrom 1 0 (decode sm.mappings))
    (hseg : ∀ m ∈ decode sm.mappings, SegOK (splitLines t) (adv startPos t).line (adv startPos t).col m) :
    LookEq t (chunkMs (streamSMFull t sm).evs) (decode sm.mappings) := by
  rw [lookEq_iff]
  have hin : MapInside t sm := fun m hm => (hseg m hm).1
  have hp : PosOK (streamSM t sm ⟨true, false⟩) := streamSM_posOK t sm true ha hl (fun _ => hin)
  have hT := streamSM_tok t sm true
  have hTL := streamSM_tl t sm true
  have hx := streamSM_text t sm true (textOK_of_ascii t ha hl)
  have h1 := attr_of_stream _ hp hT hTL
  rw [hx] at h1
  have h2 := streamSMFull_attr t sm ha hl hs hseg
  simp only [streamSM] at h1
  rw [h1, h2]

/-- **SourceMapSource** (columns = true): text-less and normal stream answer every lookup at a character position alike -/
theorem streamSM_lookEq (t : Text) (sm : SMap) (ha : IsAscii t) (hl : t.length ≤ USIZE_MAX) (hs : sortedFrom 1 0 (decode sm.mappings))
    (hseg : ∀ m ∈ decode sm.mappings, SegOK (splitLines t) (adv startPos t).line (adv startPos t).col m) :
    LookEq t (chunkMs (streamSM t sm ⟨true, true⟩).evs) (chunkMs (streamSM t sm ⟨true, false⟩).evs) := by
  intro j hj
  simp only [streamSM]
  rw [streamSMFinal_lookEq t sm hs j hj, streamSMFull_lookEq t sm ha hl hs hseg j hj]

end Rs
