import RsModel.Lemmas.AttrStream
import RsModel.Lemmas.CodecLookup
/-!
# C10 — replaying a stream from the map built out of it reproduces its attribution (columns = true)

`get_map` encodes the chunk mappings of a stream; `CachedSource` later replays the text through the map-driven splitter with that
map.  Chain: chunk attribution = lookup in the chunk mappings (`attr_of_stream`) = lookup in the segments the encoder kept
(`kept_lookupGo`) = lookup in the decoded string (`decode_encode`) = attribution of the replayed stream (`streamSMFull_attr`).
-/
namespace Rs

def mle (a b : Mapping) : Prop := a.gl < b.gl ∨ (a.gl = b.gl ∧ a.gc ≤ b.gc)

theorem sortedFrom_iff : ∀ (ms : List Mapping) (l c : Nat),
    sortedFrom l c ms ↔ (∀ x ∈ ms, l < x.gl ∨ (l = x.gl ∧ c ≤ x.gc)) ∧ ms.Pairwise mle := by
  intro ms
  induction ms with
  | nil => intro l c; simp [sortedFrom]
  | cons m ms ih =>
    intro l c
    simp only [sortedFrom, ih, List.pairwise_cons, List.mem_cons, forall_eq_or_imp]
    constructor
    · rintro ⟨h1, h2, h3⟩
      refine ⟨⟨h1, ?_⟩, ⟨fun x hx => h2 x hx, h3⟩⟩
      intro x hx
      rcases h2 x hx with h | h <;> rcases h1 with h' | h'
      · exact Or.inl (by omega)
      · exact Or.inl (by omega)
      · exact Or.inl (by omega)
      · exact Or.inr ⟨by omega, by omega⟩
    · rintro ⟨⟨h1, _⟩, h3, h4⟩
      exact ⟨h1, h3, h4⟩

theorem keptFrom_sublist : ∀ (ms : List Mapping) (e : EncSt), (keptFrom e ms).Sublist ms := by
  intro ms
  induction ms with
  | nil => intro e; exact List.Sublist.slnil
  | cons m ms ih =>
    intro e
    simp only [keptFrom]
    split
    · exact (ih e).cons m
    · exact (ih _).cons₂ m

theorem sortedFrom_sublist (ms ms' : List Mapping) (l c : Nat) (h : sortedFrom l c ms) (hs : ms'.Sublist ms) : sortedFrom l c ms' := by
  rw [sortedFrom_iff] at h ⊢
  exact ⟨fun x hx => h.1 x (hs.subset hx), h.2.sublist hs⟩

/-- the chunk mappings of a stream that reports true positions are sorted -/
theorem chunkMs_sorted : ∀ (evs : List Ev) (pre : Text), posOKT pre evs → evsTL evs = false →
    sortedFrom (adv startPos pre).line (adv startPos pre).col (chunkMs evs) := by
  intro evs
  induction evs with
  | nil => intro pre _ _; trivial
  | cons e es ih =>
    intro pre hp hTL
    have hTLs : evsTL es = false := by simp only [evsTL_cons, Bool.or_eq_false_iff] at hTL; exact hTL.2
    cases e with
    | chunk t m =>
      cases t with
      | none => simp [evsTL_cons, Ev.textless] at hTL
      | some t =>
        simp only [posOKT] at hp
        simp only [chunkMs, sortedFrom]
        refine ⟨by rw [← hp.1]; exact Or.inr ⟨rfl, Nat.le_refl _⟩, ?_⟩
        have h1 := ih (pre ++ t) hp.2 hTLs
        -- weaken the starting point from the end of the chunk to its start
        rw [sortedFrom_iff] at h1 ⊢
        refine ⟨fun x hx => ?_, h1.2⟩
        have hx1 := h1.1 x hx
        have hge := adv_ge t (adv startPos pre)
        rw [← adv_append, ← hp.1] at hge
        rcases hge with h | h <;> rcases hx1 with h' | h' <;> simp only at h h'
        · exact Or.inl (by omega)
        · exact Or.inl (by omega)
        · exact Or.inl (by omega)
        · exact Or.inr ⟨by omega, by omega⟩
    | source i s c => exact ih pre hp hTLs
    | name i n => exact ih pre hp hTLs

theorem prefix_cases (pre a b : Text) (h : pre <+: a ++ b) :
    (pre.length ≤ a.length ∧ pre <+: a) ∨ (∃ pre', pre = a ++ pre' ∧ pre' <+: b) := by
  by_cases hle : pre.length ≤ a.length
  · exact Or.inl ⟨hle, List.prefix_of_prefix_length_le h (List.prefix_append a b) hle⟩
  · right
    obtain ⟨p', hp'⟩ := List.prefix_of_prefix_length_le (List.prefix_append a b) h (by omega)
    obtain ⟨r, hr⟩ := h
    refine ⟨p', hp'.symm, r, ?_⟩
    rw [← hp', List.append_assoc] at hr
    exact List.append_cancel_left hr

theorem prefix_single (p : Text) (x : UInt8) (h : p <+: [x]) : p = [] ∨ p = [x] := by
  obtain ⟨r, hr⟩ := h
  cases p with
  | nil => exact Or.inl rfl
  | cons y ys =>
    simp only [List.cons_append, List.cons.injEq] at hr
    obtain ⟨rfl, h2⟩ := hr
    have : ys = [] := by
      cases ys with
      | nil => rfl
      | cons _ _ => simp at h2
    subst this; exact Or.inr rfl

/-- a true position lies inside the text -/
theorem prefix_pos_inside : ∀ (ls : List Text), Lines ls → ∀ (pre : Text) (l0 : Nat), pre <+: ls.flatten →
    l0 ≤ (adv ⟨l0, 0⟩ pre).line
    ∧ ((adv ⟨l0, 0⟩ pre).line - l0 < ls.length → (adv ⟨l0, 0⟩ pre).col ≤ width (ls.getD ((adv ⟨l0, 0⟩ pre).line - l0) [])) := by
  intro ls h
  -- a prefix that stays inside a line-break-free stretch `s`
  have inline : ∀ (s : Text) (pre : Text) (l0 : Nat), (∀ x ∈ s, x ≠ NL) → pre <+: s → adv ⟨l0, 0⟩ pre = ⟨l0, pre.length⟩ ∧ pre.length ≤ s.length := by
    intro s pre l0 hs hpre
    obtain ⟨r, hr⟩ := hpre
    have : ∀ x ∈ pre, x ≠ NL := fun x hx => hs x (by rw [← hr]; exact List.mem_append_left _ hx)
    rw [adv_noNL pre _ this]
    exact ⟨by simp, by rw [← hr]; simp⟩
  have hline : ∀ (t : Text) (l0 : Nat), (∀ x ∈ t, x ≠ NL) → adv ⟨l0, 0⟩ (t ++ [NL]) = ⟨l0 + 1, 0⟩ := fun t l0 h => adv_line t _ h
  have hstay : ∀ (t : Text) (l0 : Nat), (∀ x ∈ t, x ≠ NL) → adv ⟨l0, 0⟩ t = ⟨l0, t.length⟩ := by
    intro t l0 h; rw [adv_noNL t _ h]; simp
  induction h with
  | nil =>
    intro pre l0 hp
    have : pre = [] := by simpa using hp
    subst this; simp [adv]
  | last t hne hno =>
    intro pre l0 hp
    simp only [List.flatten_cons, List.flatten_nil, List.append_nil] at hp
    obtain ⟨e1, e2⟩ := inline t pre l0 hno hp
    rw [e1]
    refine ⟨Nat.le_refl _, fun _ => ?_⟩
    simp only [Nat.sub_self, List.getD_cons_zero]
    rw [(width_cases t hno).2]; exact e2
  | lastNL t hno =>
    intro pre l0 hp
    simp only [List.flatten_cons, List.flatten_nil, List.append_nil] at hp
    rcases prefix_cases pre t [NL] hp with ⟨_, hp'⟩ | ⟨pre', rfl, hp'⟩
    · obtain ⟨e1, e2⟩ := inline t pre l0 hno hp'
      rw [e1]
      refine ⟨Nat.le_refl _, fun _ => ?_⟩
      simp only [Nat.sub_self, List.getD_cons_zero]
      rw [(width_cases t hno).1]; exact e2
    · rcases prefix_single pre' NL hp' with rfl | rfl
      · rw [List.append_nil, hstay t l0 hno]
        refine ⟨Nat.le_refl _, fun _ => ?_⟩
        simp only [Nat.sub_self, List.getD_cons_zero]
        rw [(width_cases t hno).1]; exact Nat.le_refl _
      · rw [hline t l0 hno]
        exact ⟨by simp only; omega, fun h => by simp only [List.length_singleton] at h; omega⟩
  | cons t rest hno hne hr ih =>
    intro pre l0 hp
    simp only [List.flatten_cons] at hp
    rcases prefix_cases pre (t ++ [NL]) rest.flatten hp with ⟨_, hp'⟩ | ⟨pre', rfl, hp'⟩
    · rcases prefix_cases pre t [NL] hp' with ⟨_, hp2⟩ | ⟨p2, rfl, hp2⟩
      · obtain ⟨e1, e2⟩ := inline t pre l0 hno hp2
        rw [e1]
        refine ⟨Nat.le_refl _, fun _ => ?_⟩
        simp only [Nat.sub_self, List.getD_cons_zero]
        rw [(width_cases t hno).1]; exact e2
      · rcases prefix_single p2 NL hp2 with rfl | rfl
        · rw [List.append_nil, hstay t l0 hno]
          refine ⟨Nat.le_refl _, fun _ => ?_⟩
          simp only [Nat.sub_self, List.getD_cons_zero]
          rw [(width_cases t hno).1]; exact Nat.le_refl _
        · rw [hline t l0 hno]
          refine ⟨by simp only; omega, fun _ => ?_⟩
          simp only
          exact Nat.zero_le _
    · rw [adv_append, hline t l0 hno]
      obtain ⟨i1, i2⟩ := ih pre' (l0 + 1) hp'
      refine ⟨by omega, fun h => ?_⟩
      have hidx : (adv ⟨l0 + 1, 0⟩ pre').line - l0 = ((adv ⟨l0 + 1, 0⟩ pre').line - (l0 + 1)) + 1 := by omega
      rw [hidx, List.getD_cons_succ]
      apply i2
      simp only [List.length_cons] at h
      omega

end Rs

namespace Rs

/-- mapped chunks carry text (true of every stream the crate produces: mapped pieces are never zero-width) -/
def MappedNE (evs : List Ev) : Prop := ∀ t m, Ev.chunk (some t) m ∈ evs → m.orig.isSome = true → t ≠ []

/-- where each chunk mapping sits in the text -/
theorem chunkMs_where : ∀ (evs : List Ev) (pre : Text), posOKT pre evs → evsTL evs = false → MappedNE evs →
    ∀ x ∈ chunkMs evs, ∃ pre' rest', pre ++ evsText evs = pre' ++ rest' ∧ (⟨x.gl, x.gc⟩ : Pos) = adv startPos pre'
      ∧ (x.orig.isSome = true → rest' ≠ []) := by
  intro evs
  induction evs with
  | nil => intro pre _ _ _ x hx; simp [chunkMs] at hx
  | cons e es ih =>
    intro pre hp hTL hMN x hx
    have hTLs : evsTL es = false := by simp only [evsTL_cons, Bool.or_eq_false_iff] at hTL; exact hTL.2
    have hMNs : MappedNE es := fun t m hm h => hMN t m (by simp [hm]) h
    cases e with
    | chunk t m =>
      cases t with
      | none => simp [evsTL_cons, Ev.textless] at hTL
      | some t =>
        simp only [posOKT] at hp
        simp only [chunkMs, List.mem_cons] at hx
        rcases hx with rfl | hx
        · refine ⟨pre, t ++ evsText es, by simp [evsText_cons, Ev.text], hp.1, ?_⟩
          intro ho
          have := hMN t x (by simp) ho
          intro e; exact this (List.append_eq_nil_iff.1 e).1
        · obtain ⟨p', r', e1, e2, e3⟩ := ih (pre ++ t) hp.2 hTLs hMNs x hx
          exact ⟨p', r', by simpa [evsText_cons, Ev.text, List.append_assoc] using e1, e2, e3⟩
    | source i s c =>
      obtain ⟨p', r', e1, e2, e3⟩ := ih pre hp hTLs hMNs x (by simpa [chunkMs] using hx)
      exact ⟨p', r', by simpa [evsText_cons, Ev.text] using e1, e2, e3⟩
    | name i n =>
      obtain ⟨p', r', e1, e2, e3⟩ := ih pre hp hTLs hMNs x (by simpa [chunkMs] using hx)
      exact ⟨p', r', by simpa [evsText_cons, Ev.text] using e1, e2, e3⟩

theorem linesOK_of_sorted : ∀ (ms : List Mapping) (l c : Nat), sortedFrom l c ms → linesOK l ms := by
  intro ms
  induction ms with
  | nil => intros; trivial
  | cons m ms ih => intro l c ⟨h1, h2⟩; exact ⟨by omega, ih _ _ h2⟩

/-- **replay theorem** (columns = true): streaming a text through the map-driven splitter with the map that `get_map` builds from a
stream `r` of that text gives every byte the original location it had in `r` -/
theorem replay_attr (r : SResult) (hp : PosOK r) (hT : ChunksTok r.evs) (hTL : evsTL r.evs = false) (hMN : MappedNE r.evs)
    (ha : IsAscii (evsText r.evs)) (hl : (evsText r.evs).length ≤ USIZE_MAX) (hsmall : ∀ m ∈ chunkMs r.evs, m.small)
    (sm : SMap) (hm : sm.mappings = encodeFull (chunkMs r.evs)) :
    attrOf (streamSMFull (evsText r.evs) sm).evs = attrOf r.evs := by
  have hsorted : sortedFrom 1 0 (chunkMs r.evs) := chunkMs_sorted r.evs [] hp.1 hTL
  have hdec : decode sm.mappings = keptFrom {} (chunkMs r.evs) := by
    rw [hm]; exact decode_encode _ hsmall (linesOK_of_sorted _ 1 0 hsorted)
  have hsub := keptFrom_sublist (chunkMs r.evs) {}
  rw [streamSMFull_attr (evsText r.evs) sm ha hl (by rw [hdec]; exact sortedFrom_sublist _ _ 1 0 hsorted hsub) ?_]
  · rw [← attr_of_stream r hp hT hTL]
    apply attrFrom_congr
    intro q _ _
    rw [hdec]
    unfold lookupCols
    exact kept_lookupGo q.line q.col (chunkMs r.evs) {} none none hsorted
      ⟨rfl, fun _ => rfl, fun _ => rfl, fun _ => rfl, fun h => by simp at h⟩
  · intro m hmem
    rw [hdec] at hmem
    obtain ⟨pre', rest', e1, e2, e3⟩ := chunkMs_where r.evs [] hp.1 hTL hMN m (hsub.subset hmem)
    rw [List.nil_append] at e1
    have hpre : pre' <+: (splitLines (evsText r.evs)).flatten := by rw [splitLines_join, e1]; exact List.prefix_append _ _
    obtain ⟨i1, i2⟩ := prefix_pos_inside (splitLines (evsText r.evs)) (lines_of_splitLines _) pre' 1 hpre
    have e2' : adv ⟨1, 0⟩ pre' = ⟨m.gl, m.gc⟩ := e2.symm
    rw [e2'] at i1 i2
    simp only at i1 i2
    refine ⟨⟨i1, fun hle => ?_⟩, fun ho => ?_, ?_⟩
    · have := i2 (by omega)
      simpa [lineAt] using this
    · -- a byte follows: strictly before the end
      have hne := e3 ho
      rw [e1, adv_append, ← e2]
      cases hr : rest' with
      | nil => exact absurd hr hne
      | cons c cs =>
        have := adv_gt c cs ⟨m.gl, m.gc⟩
        rcases this with h | h
        · exact Or.inl h
        · exact Or.inr h
    · rw [e1, adv_append, ← e2]
      have := adv_ge rest' ⟨m.gl, m.gc⟩
      rcases this with h | h
      · exact Or.inl h
      · exact Or.inr h

end Rs

namespace Rs

theorem mapAcc_ms : ∀ (evs : List Ev) (a : MapAcc), (evs.foldl mapAccEv a).ms.reverse = a.ms.reverse ++ chunkMs evs := by
  intro evs
  induction evs with
  | nil => intro a; simp [chunkMs]
  | cons e es ih =>
    intro a
    rw [List.foldl_cons, ih]
    cases e with
    | chunk t m => simp [mapAccEv, chunkMs]
    | source i s c => simp [mapAccEv, chunkMs]
    | name i n => simp [mapAccEv, chunkMs]

/-- the map `get_map` / `stream_and_get_source_and_map` builds carries the encoded chunk mappings -/
theorem mapOfEvs_mappings (evs : List Ev) (sm : SMap) (h : mapOfEvs true evs = some sm) : sm.mappings = encodeFull (chunkMs evs) := by
  unfold mapOfEvs at h
  simp only [encodeWith, if_true] at h
  split at h
  · cases h
  · simp only [Option.some.injEq] at h
    rw [← h]
    simp only
    rw [mapAcc_ms]; simp

theorem mapOfEvs_none (evs : List Ev) (h : mapOfEvs true evs = none) : encodeFull (chunkMs evs) = [] := by
  unfold mapOfEvs at h
  simp only [encodeWith, if_true] at h
  split at h
  · rename_i he
    rw [mapAcc_ms] at he
    simpa using he
  · cases h

theorem attrOf_lineEvs_none : ∀ (ls : List Text) (l : Nat), attrOf (lineEvs (fun _ => none) l ls) = List.replicate ls.flatten.length none := by
  intro ls
  induction ls with
  | nil => intro l; rfl
  | cons t ts ih =>
    intro l
    simp only [lineEvs, attrOf, ih, List.flatten_cons, List.length_append, List.replicate_append_replicate]

theorem attrFrom_nil_map : ∀ (t : Text) (p : Pos), attrFrom [] p t = List.replicate t.length none := by
  intro t
  induction t with
  | nil => intro p; rfl
  | cons c cs ih => intro p; simp only [attrFrom, ih, List.length_cons, List.replicate_succ]; rfl

/-- when `get_map` finds nothing to encode, nothing of the stream was mapped -/
theorem replay_none (r : SResult) (hp : PosOK r) (hT : ChunksTok r.evs) (hTL : evsTL r.evs = false)
    (hsmall : ∀ m ∈ chunkMs r.evs, m.small) (hnone : encodeFull (chunkMs r.evs) = []) :
    attrOf (streamRaw (evsText r.evs) ⟨true, false⟩).evs = attrOf r.evs := by
  have hsorted : sortedFrom 1 0 (chunkMs r.evs) := chunkMs_sorted r.evs [] hp.1 hTL
  have hdec : keptFrom {} (chunkMs r.evs) = [] := by
    have := decode_encode _ hsmall (linesOK_of_sorted _ 1 0 hsorted)
    rw [hnone] at this
    rw [← this]; decide
  rw [← attr_of_stream r hp hT hTL]
  have : attrFrom (chunkMs r.evs) startPos (evsText r.evs) = attrFrom [] startPos (evsText r.evs) := by
    apply attrFrom_congr
    intro q _ _
    have := kept_lookupGo q.line q.col (chunkMs r.evs) {} none none hsorted
      ⟨rfl, fun _ => rfl, fun _ => rfl, fun _ => rfl, fun h => by simp at h⟩
    rw [hdec] at this
    unfold lookupCols
    rw [← this]
  rw [this, attrFrom_nil_map]
  simp only [streamRaw, Bool.false_eq_true, if_false, rawChunks_eq, attrOf_lineEvs_none, splitLines_join]

end Rs
