import RsModel.Lemmas.SMText
import RsModel.Lemmas.TextComposite
import RsModel.Lemmas.ReplaceText
import RsModel.Lemmas.Replace
/-!
# C01 for whole source trees

`Src.WF` states what the crate's types and the property's quantifier guarantee about a tree:
* the text of a `SourceMapSource`, and the text a `CachedSource` replays from, is a Rust `String` — its lines start
  on a character boundary and its length fits `usize` (`TextOK`);
* replacements have `start ≤ end`.
Nothing is assumed about maps, stores (what earlier calls cached), chunking of inner streams, or options.
-/
namespace Rs

mutual
def Src.WF : Src → Prop
  | .raw _ _ _ => True
  | .rawStr _ => True
  | .rawBuf _ _ => True
  | .orig _ _ => True
  | .sms t _ _ _ _ _ => TextOK t
  | .concat cs => cs.WFs
  | .replace inner rs => inner.WF ∧ ∀ r ∈ rs, r.start ≤ r.stop
  | .cached _ inner => inner.WF ∧ TextOK inner.src
def SrcList.WFs : SrcList → Prop
  | .nil => True
  | .cons s r => s.WF ∧ r.WFs
end

theorem mem_sortRepls (rs : List Repl) (r : Repl) : r ∈ sortRepls rs ↔ r ∈ rs := by
  rw [sortRepls_eq_mergeSort]
  exact (List.mergeSort_perm rs Repl.le).mem_iff

theorem replaceSource_eq (inner : Text) (rs : List Repl) : replaceSource inner rs = specGo 0 inner (sortRepls rs) := by
  unfold replaceSource
  cases rs with
  | nil => simp [sortRepls, specGo_nil_rest, specGo]
  | cons r rs => simp

mutual
theorem Src.stream_text : ∀ (s : Src) (c : Bool) (σ : Store), s.WF → evsText (s.stream ⟨c, false⟩ σ).1.evs = s.src
  | .raw _ _ lossy, c, σ, _ => by simp only [Src.stream, Src.src]; exact streamRaw_text lossy c
  | .rawStr t, c, σ, _ => by simp only [Src.stream, Src.src]; exact streamRaw_text t c
  | .rawBuf _ lossy, c, σ, _ => by simp only [Src.stream, Src.src]; exact streamRaw_text lossy c
  | .orig t name, c, σ, _ => by simp only [Src.stream, Src.src]; exact streamOriginal_text t name c
  | .sms t name map origSrc inner remove, c, σ, h => by
    simp only [Src.WF] at h
    simp only [Src.stream, Src.src]
    cases inner with
    | none => exact streamSM_text t map c h
    | some im => simp only; rw [streamCombined_text]; exact streamSM_text t map c h
  | .concat .nil, c, σ, _ => by simp [Src.stream, Src.src, SrcList.srcs, concatStream_text]
  | .concat (.cons s rest), c, σ, h => by
    simp only [Src.WF, SrcList.WFs] at h
    cases hr : rest with
    | nil =>
      simp only [Src.stream, Src.src, SrcList.srcs, List.append_nil]
      exact Src.stream_text s c σ h.1
    | cons s2 rest2 =>
      simp only [Src.stream, Src.src, concatStream_text, List.map_cons, List.flatten_cons]
      rw [Src.stream_text s c σ h.1]
      have := SrcList.streams_text (.cons s2 rest2) c (s.stream ⟨c, false⟩ σ).2 (hr ▸ h.2)
      rw [this]; simp only [SrcList.srcs]
  | .replace inner rs, c, σ, h => by
    simp only [Src.WF] at h
    simp only [Src.stream, Src.src]
    rw [replaceStream_text _ _ (fun r hr => h.2 r ((mem_sortRepls rs r).1 hr)), Src.stream_text inner c σ h.1, replaceSource_eq]
  | .cached id inner, c, σ, h => by
    simp only [Src.WF] at h
    simp only [Src.stream, Src.src]
    cases hg : Store.get? σ (id, ⟨c, false⟩) with
    | none => simp only; exact Src.stream_text inner c σ h.1
    | some v =>
      cases v with
      | none => simp only; exact streamRaw_text inner.src c
      | some m => simp only; exact streamSM_text inner.src m c h.2
theorem SrcList.streams_text : ∀ (l : SrcList) (c : Bool) (σ : Store), l.WFs →
    ((l.streams ⟨c, false⟩ σ).1.map fun r => evsText r.evs).flatten = l.srcs
  | .nil, c, σ, _ => by simp [SrcList.streams, SrcList.srcs]
  | .cons s rest, c, σ, h => by
    simp only [SrcList.WFs] at h
    simp only [SrcList.streams, SrcList.srcs, List.map_cons, List.flatten_cons]
    rw [Src.stream_text s c σ h.1, SrcList.streams_text rest c _ h.2]
end

end Rs
