import RsModel.Lemmas.ProvChunks
/-!
# C04 through `map()`, byte by byte, for a ReplaceSource over a tree of OriginalSource / raw leaves

`attrFrom (decode sm.mappings) startPos src` lists, for every byte of `source()`, what the returned SourceMap resolves its
position to.  The theorem below says what that is for byte `i`: the file the byte was copied from (through the map's own tables),
the byte's own original line, and the column of the first byte of the piece it was delivered in — `d` columns before its own —
or, for bytes of replacement content, the position the replacement was spliced in at.
-/
namespace Rs

theorem attrOf_at : ∀ (evs : List Ev) (i : Nat) (a : Option Orig), (attrOf evs)[i]? = some a →
    ∃ t m d, Ev.chunk (some t) m ∈ evs ∧ d < t.length ∧ a = m.orig ∧ (evsText evs)[i]? = t[d]? := by
  intro evs
  induction evs with
  | nil => intro i a h; simp [attrOf] at h
  | cons e es ih =>
    intro i a h
    cases e with
    | chunk t m =>
      cases t with
      | none =>
        simp only [attrOf] at h
        obtain ⟨t, m', d, h1, h2, h3, h4⟩ := ih i a h
        exact ⟨t, m', d, List.mem_cons_of_mem _ h1, h2, h3, by rw [evsText_cons]; simpa [Ev.text] using h4⟩
      | some tx =>
        simp only [attrOf] at h
        by_cases hi : i < tx.length
        · rw [List.getElem?_append_left (by simpa using hi)] at h
          simp only [List.getElem?_replicate, hi, if_true, Option.some.injEq] at h
          refine ⟨tx, m, i, by simp, hi, h.symm, ?_⟩
          rw [evsText_cons]
          simp only [Ev.text]
          rw [List.getElem?_append_left hi]
        · rw [List.getElem?_append_right (by simpa using hi)] at h
          simp only [List.length_replicate] at h
          obtain ⟨t, m', d, h1, h2, h3, h4⟩ := ih (i - tx.length) a h
          refine ⟨t, m', d, List.mem_cons_of_mem _ h1, h2, h3, ?_⟩
          rw [evsText_cons]
          simp only [Ev.text]
          rw [List.getElem?_append_right (by omega)]
          exact h4
    | source j s c =>
      simp only [attrOf] at h
      obtain ⟨t, m', d, h1, h2, h3, h4⟩ := ih i a h
      exact ⟨t, m', d, List.mem_cons_of_mem _ h1, h2, h3, by rw [evsText_cons]; simpa [Ev.text] using h4⟩
    | name j n =>
      simp only [attrOf] at h
      obtain ⟨t, m', d, h1, h2, h3, h4⟩ := ih i a h
      exact ⟨t, m', d, List.mem_cons_of_mem _ h1, h2, h3, by rw [evsText_cons]; simpa [Ev.text] using h4⟩

theorem mem_chunkMs_of_mem' : ∀ (evs : List Ev) (t : Option Text) (m : Mapping), Ev.chunk t m ∈ evs → m ∈ chunkMs evs := by
  intro evs
  induction evs with
  | nil => intro t m h; cases h
  | cons e es ih =>
    intro t m h
    rcases List.mem_cons.1 h with h1 | h1
    · rw [← h1]; simp [chunkMs]
    · have := ih t m h1
      cases e <;> simp [chunkMs, this]

theorem bsub_get (T : Text) (q q' d : Nat) (hq : q' ≤ T.length) (hd : d < q' - q) :
    (bsub T q q')[d]? = T[q + d]? ∧ d < (bsub T q q').length := by
  unfold bsub
  have hl : ((T.drop q).take (q' - q)).length = q' - q := by simp only [List.length_take, List.length_drop]; omega
  refine ⟨?_, by rw [hl]; exact hd⟩
  rw [List.getElem?_take_of_lt hd, List.getElem?_drop]

/-- **C04 through `map()`, byte `i` of `source()`**, for a ReplaceSource over any ConcatSource tree of OriginalSource / raw
leaves: if the returned SourceMap resolves the byte's position to `o`, then — through the map's own `sources` / `sourcesContent`
— `o` names a file `name` with its exact content `T` and the true line and column of a byte `q` of `T`, and either the byte
is the surviving original byte `T[q + d]`, whose own true position is `o`'s line and `o`'s column plus `d` (so it is attributed to
its own file and line, at a column not after its own, by a segment that starts on an original character), or it is a byte
of the content of one of the replacements (attributed to where that replacement was spliced in).  The segment start `q` and the
byte `q + d` lie in one potential token of `T` starting at `k0 ≤ q`: so a byte that *begins* a potential token (`q + d = k0`:
a statement start) has `d = 0` — it resolves to exactly its own line and column -/
theorem replace_origTree_map_bytes (cons : Text → Option Text) (inner : Src) (ho : inner.OrigTree) (hw : Src.WD cons true inner)
    (hasc : ∀ n T, cons n = some T → IsAscii T ∧ T.length < USIZE_MAX) (rs : List Repl)
    (hr : ∀ r ∈ rs, r.start ≤ r.stop) (hlen : (replaceSource inner.src rs).length + 1 < 2 ^ 32) (final : Bool)
    (hsmall : ∀ m ∈ chunkMs ((Src.replace inner rs).stream ⟨true, true⟩ []).1.evs, m.small)
    (sm : SMap) (hm : (getMap (.replace inner rs) ⟨true, final⟩ []).1 = some sm) :
    ∀ (i : Nat) (o : Orig), (attrFrom (decode sm.mappings) startPos (replaceSource inner.src rs))[i]? = some (some o) →
      ∃ (name T : Text) (q d : Nat), sm.sources[o.src]? = some name ∧ sm.sourcesContent[o.src]? = some T ∧ q < T.length
        ∧ adv startPos (T.take q) = ⟨o.line, o.col⟩
        ∧ ((q + d < T.length ∧ (replaceSource inner.src rs)[i]? = T[q + d]?
              ∧ adv startPos (T.take (q + d)) = ⟨o.line, o.col + d⟩
              ∧ ∃ tok k0 l0 c0, TokPos T tok l0 c0 k0 ∧ k0 ≤ q ∧ q + d < k0 + tok.length)
            ∨ (∃ r ∈ sortRepls rs, ∃ cl ∈ splitLines r.content, d < cl.length ∧ (replaceSource inner.src rs)[i]? = cl[d]?)) := by
  intro i o hget
  have hmode : (Src.replace inner rs).ModeHyp := ⟨Src.origTree_mode inner ho, hr, hlen⟩
  obtain ⟨b1, b2, b3, b4, b5, b6, b7⟩ := Src.base_facts _ hmode
  have hm3 := Src.m3 _ hmode
  have hattr := (getMap_attr (.replace inner rs) hmode final hsmall).1 sm hm
  have hsrc : (Src.replace inner rs).src = replaceSource inner.src rs := rfl
  rw [hsrc] at hattr b4
  rw [hattr] at hget
  obtain ⟨t, m, d, hmem, hd, hmo, hbyte⟩ := attrOf_at _ i (some o) hget
  rw [b4] at hbyte
  have hm1 : m ∈ chunkMs ((Src.replace inner rs).stream ⟨true, false⟩ []).1.evs := mem_chunkMs_of_mem' _ _ _ hmem
  rcases replace_origTree_true cons inner ho hw hasc rs false [] (some t) m hmem with h0 | ⟨name, T, q, y, y1, y2, y3, y4, y5⟩
  · rw [h0] at hmo; cases hmo
  · rw [y1] at hmo
    simp only [Option.some.injEq] at hmo
    subst hmo
    -- the tables of the map are the tables the stream ends with
    have hAC : AllContent ((Src.replace inner rs).stream ⟨true, false⟩ []).1.evs := by
      rw [allContent_iff]
      intro i s c hs
      simp only [Src.stream] at hs
      have := ((replaceStream_keeps (sortRepls rs) _).2 i s c).1 hs
      exact (allContent_iff _).1 (Src.origTree_allContent inner ⟨true, false⟩ [] ho) i s c this
    have hrel := mapAcc_tblRel ((Src.replace inner rs).stream ⟨true, false⟩ []).1.evs 0 0 {} emptyS emptyN b5 hAC
      ⟨rfl, rfl, rfl, fun i hi => by omega, fun i hi => by omega⟩
    obtain ⟨d1, d2, d3⟩ := mapAcc_decls ((Src.replace inner rs).stream ⟨true, true⟩ []).1.evs {}
    obtain ⟨e1, e2, e3⟩ := mapAcc_decls ((Src.replace inner rs).stream ⟨true, false⟩ []).1.evs {}
    have hsm : sm.sources = (((Src.replace inner rs).stream ⟨true, false⟩ []).1.evs.foldl mapAccEv {}).sources
        ∧ sm.sourcesContent = (((Src.replace inner rs).stream ⟨true, false⟩ []).1.evs.foldl mapAccEv {}).contents := by
      simp only [getMap, mapOfEvs] at hm
      split at hm
      · cases hm
      · simp only [Option.some.injEq] at hm
        rw [← hm]
        simp only
        cases final <;> (rw [d1, d2, e1, e2, hm3.decls]; exact ⟨rfl, rfl⟩)
    obtain ⟨r1, r2, r3, r4, r5⟩ := hrel
    have hidx := declOK_chunkMs _ 0 0 b5 m hm1 o y1
    simp only [Nat.zero_add] at hidx r4
    have hfile := r4 o.src hidx.1
    rw [y2] at hfile
    have hS : sm.sources[o.src]? = some name ∧ sm.sourcesContent[o.src]? = some T := by
      rw [hsm.1, hsm.2]
      cases hq : ((((Src.replace inner rs).stream ⟨true, false⟩ []).1.evs.foldl mapAccEv {}).sources)[o.src]? with
      | none => rw [hq] at hfile; simp at hfile
      | some f =>
        rw [hq] at hfile
        simp only [Option.map_some, Option.some.injEq, Prod.mk.injEq] at hfile
        exact ⟨by rw [hfile.1], hfile.2.symm⟩
    refine ⟨name, T, q, d, hS.1, hS.2, y3, y4, ?_⟩
    rcases y5 with ⟨q', hq1, hq2, hq3, hq4, tok, k0, l0, c0, hq5, hq6, hq7⟩ | ⟨r, hr1, cl, hcl, hq3⟩
    · simp only [Option.some.injEq] at hq3
      subst hq3
      have hlen' : (bsub T q q').length = q' - q := by unfold bsub; simp only [List.length_take, List.length_drop]; omega
      rw [hlen'] at hd
      refine Or.inl ⟨by omega, ?_, hq4 d hd, tok, k0, l0, c0, hq5, hq6, by omega⟩
      rw [hbyte]
      exact (bsub_get T q q' d hq2 hd).1
    · simp only [Option.some.injEq] at hq3
      subst hq3
      exact Or.inr ⟨r, hr1, t, hcl, hd, hbyte⟩

end Rs
