import RsModel.Lemmas.ColdStrip
import RsModel.Lemmas.EraseContent
import RsModel.Lemmas.ReplayNames
import RsModel.Lemmas.MappedNE
import RsModel.Lemmas.ReplaceOrig
import RsModel.Lemmas.LeavesAttr
/-!
# Warm caches inside a tree (C10): the second call attributes like the first

First call on cold caches: every CachedSource node streams its inner source and stores the map built from that stream.  Second
call with the store the first call left: every *outermost* CachedSource node answers from its entry — it replays its text through
the stored map — and what lies beneath it is not visited.  For trees whose CachedSource nodes sit under ConcatSource nodes only
(not beneath a ReplaceSource: known finding K5) the second stream resolves every byte to the same file name, original line, original
column and name as the first.
-/
namespace Rs

/-! ## the store only grows -/

theorem store_get_append_some (σ : Store) (k : Nat × Opts) (v : Option SMap) (x : (Nat × Opts) × Option SMap) (h : σ.get? k = some v) :
    Store.get? (σ ++ [x]) k = some v := by
  unfold Store.get? at h ⊢
  rw [List.find?_append]
  cases hf : List.find? (fun e => e.1 == k) σ with
  | none => rw [hf] at h; cases h
  | some e => rw [hf] at h; simpa using h

theorem insertNew_mono (σ : Store) (k k' : Nat × Opts) (v w : Option SMap) (h : σ.get? k = some v) : (σ.insertNew k' w).get? k = some v := by
  unfold Store.insertNew
  split
  · exact h
  · exact store_get_append_some σ k v _ h

theorem insertNew_self (σ : Store) (k : Nat × Opts) (v : Option SMap) (h : σ.get? k = none) : (σ.insertNew k v).get? k = some v := by
  unfold Store.insertNew
  rw [h]
  simp only [Option.isSome_none, Bool.false_eq_true, if_false]
  unfold Store.get? at h ⊢
  rw [List.find?_append]
  have hf : List.find? (fun x => x.1 == k) σ = none := by
    cases hq : List.find? (fun x => x.1 == k) σ with
    | none => rfl
    | some e => rw [hq] at h; cases h
  rw [hf]
  simp

mutual
theorem Src.stream_store_mono : ∀ (s : Src) (o : Opts) (σ : Store) (k : Nat × Opts) (v : Option SMap), σ.get? k = some v →
    (s.stream o σ).2.get? k = some v
  | .raw .., _, _, _, _, h | .rawStr .., _, _, _, _, h | .rawBuf .., _, _, _, _, h | .orig .., _, _, _, _, h => h
  | .sms t name map origSrc inner remove, o, σ, k, v, h => by simp only [Src.stream]; split <;> exact h
  | .concat .nil, _, _, _, _, h => h
  | .concat (.cons s rest), o, σ, k, v, h => by
    cases hr : rest with
    | nil => simp only [Src.stream]; exact Src.stream_store_mono s o σ k v h
    | cons s2 rest2 =>
      simp only [Src.stream]
      exact SrcList.streams_store_mono (.cons s2 rest2) o _ k v (Src.stream_store_mono s o σ k v h)
  | .replace inner rs, o, σ, k, v, h => by simp only [Src.stream]; exact Src.stream_store_mono inner _ σ k v h
  | .cached id inner, o, σ, k, v, h => by
    simp only [Src.stream]
    split
    · exact h
    · exact h
    · exact insertNew_mono _ _ _ _ _ (Src.stream_store_mono inner o σ k v h)
theorem SrcList.streams_store_mono : ∀ (l : SrcList) (o : Opts) (σ : Store) (k : Nat × Opts) (v : Option SMap), σ.get? k = some v →
    (l.streams o σ).2.get? k = some v
  | .nil, _, _, _, _, h => h
  | .cons s rest, o, σ, k, v, h => by
    simp only [SrcList.streams]
    exact SrcList.streams_store_mono rest o _ k v (Src.stream_store_mono s o σ k v h)
end

/-! ## what the first call leaves in the store -/

mutual
/-- every outermost CachedSource node of the tree has, for the options `o`, the entry its first stream on a cold cache writes;
no CachedSource sits beneath a ReplaceSource -/
def Src.WarmFor (σ : Store) (o : Opts) : Src → Prop
  | .concat cs => cs.WarmFors σ o
  | .replace inner _ => inner.NoCached
  | .cached id inner => σ.get? (id, o) = some (mapOfEvs o.columns (inner.strip.stream o []).1.evs)
  | _ => True
def SrcList.WarmFors (σ : Store) (o : Opts) : SrcList → Prop
  | .nil => True
  | .cons s r => s.WarmFor σ o ∧ r.WarmFors σ o
end

mutual
/-- no CachedSource beneath a ReplaceSource -/
def Src.CachedOK : Src → Prop
  | .concat cs => cs.CachedOKs
  | .replace inner _ => inner.NoCached
  | .cached _ inner => True
  | _ => True
def SrcList.CachedOKs : SrcList → Prop
  | .nil => True
  | .cons s r => s.CachedOK ∧ r.CachedOKs
end

mutual
theorem Src.warmFor_mono : ∀ (s : Src) (σ σ' : Store) (o : Opts), (∀ k v, σ.get? k = some v → σ'.get? k = some v) → s.WarmFor σ o → s.WarmFor σ' o
  | .raw .., _, _, _, _, _ | .rawStr .., _, _, _, _, _ | .rawBuf .., _, _, _, _, _ | .orig .., _, _, _, _, _ | .sms .., _, _, _, _, _ => trivial
  | .concat cs, σ, σ', o, hm, h => by simp only [Src.WarmFor] at h ⊢; exact SrcList.warmFors_mono cs σ σ' o hm h
  | .replace inner rs, _, _, _, _, h => h
  | .cached id inner, σ, σ', o, hm, h => by simp only [Src.WarmFor] at h ⊢; exact hm _ _ h
theorem SrcList.warmFors_mono : ∀ (l : SrcList) (σ σ' : Store) (o : Opts), (∀ k v, σ.get? k = some v → σ'.get? k = some v) → l.WarmFors σ o → l.WarmFors σ' o
  | .nil, _, _, _, _, _ => trivial
  | .cons s r, σ, σ', o, hm, h => ⟨Src.warmFor_mono s σ σ' o hm h.1, SrcList.warmFors_mono r σ σ' o hm h.2⟩
end

mutual
theorem Src.stream_fills : ∀ (s : Src) (o : Opts) (σ : Store), s.CachedOK → s.ids.Nodup → Cold σ s.ids → s.WarmFor (s.stream o σ).2 o
  | .raw .., _, _, _, _, _ | .rawStr .., _, _, _, _, _ | .rawBuf .., _, _, _, _, _ | .orig .., _, _, _, _, _ | .sms .., _, _, _, _, _ => trivial
  | .concat .nil, _, _, _, _, _ => trivial
  | .concat (.cons s rest), o, σ, hk, hn, hc => by
    simp only [Src.CachedOK, SrcList.CachedOKs] at hk
    simp only [Src.ids, Src.cachedNodes, SrcList.cachedNodesL, List.map_append] at hn hc
    have hn1 := (List.nodup_append.1 hn).1
    have hn2 := (List.nodup_append.1 hn).2.1
    have hdisj := (List.nodup_append.1 hn).2.2
    have hc1 := (cold_sub _ _ _ hc).1
    have h1 := Src.stream_fills s o σ hk.1 hn1 hc1
    cases hr : rest with
    | nil => simp only [Src.stream, Src.WarmFor, SrcList.WarmFors]; exact ⟨h1, trivial⟩
    | cons s2 rest2 =>
      have hc2 : Cold (s.stream o σ).2 (SrcList.cons s2 rest2).idsL := by
        rw [← hr]; exact cold_after s _ σ _ (cold_sub _ _ _ hc).2 (fun i hi hmem => hdisj i hmem i hi rfl)
      have h2 := SrcList.streams_fills (.cons s2 rest2) o (s.stream o σ).2 (hr ▸ hk.2) (hr ▸ hn2) hc2
      simp only [Src.stream, Src.WarmFor, SrcList.WarmFors]
      exact ⟨Src.warmFor_mono s _ _ o (fun k v hv => SrcList.streams_store_mono (.cons s2 rest2) o _ k v hv) h1, h2⟩
  | .replace inner rs, o, σ, hk, _, _ => by simp only [Src.CachedOK] at hk; exact hk
  | .cached id inner, o, σ, _, hn, hc => by
    simp only [Src.ids, Src.cachedNodes, List.map_cons, List.nodup_cons] at hn hc
    simp only [Src.WarmFor, Src.stream]
    rw [hc id (by simp) _]
    simp only
    have hstill : (inner.stream o σ).2.get? (id, o) = none := by
      rw [Src.stream_store_other inner _ σ (id, o) hn.1]; exact hc id (by simp) _
    rw [insertNew_self _ _ _ hstill]
    rw [Src.stream_strip inner o σ hn.2 (fun i hi => hc i (List.mem_cons_of_mem _ hi))]
theorem SrcList.streams_fills : ∀ (l : SrcList) (o : Opts) (σ : Store), l.CachedOKs → l.idsL.Nodup → Cold σ l.idsL → l.WarmFors (l.streams o σ).2 o
  | .nil, _, _, _, _, _ => trivial
  | .cons s rest, o, σ, hk, hn, hc => by
    simp only [SrcList.CachedOKs] at hk
    simp only [SrcList.idsL, SrcList.cachedNodesL, List.map_append] at hn hc
    have hn1 := (List.nodup_append.1 hn).1
    have hn2 := (List.nodup_append.1 hn).2.1
    have hdisj := (List.nodup_append.1 hn).2.2
    have hc1 := (cold_sub _ _ _ hc).1
    have hc2 : Cold (s.stream o σ).2 rest.idsL :=
      cold_after s _ σ _ (cold_sub _ _ _ hc).2 (fun i hi hmem => hdisj i hmem i hi rfl)
    simp only [SrcList.streams, SrcList.WarmFors]
    exact ⟨Src.warmFor_mono s _ _ o (fun k v hv => SrcList.streams_store_mono rest o _ k v hv) (Src.stream_fills s o σ hk.1 hn1 hc1),
      SrcList.streams_fills rest o _ hk.2 hn2 hc2⟩
end


/-! ## the second call streams the tree with every outermost CachedSource replaced by its replay -/

mutual
def Src.warm (o : Opts) : Src → Src
  | .concat cs => .concat (cs.warmL o)
  | .cached _ inner =>
    match mapOfEvs o.columns (inner.strip.stream o []).1.evs with
    | some m => .sms inner.src [] m none none false
    | none => .rawStr inner.src
  | s => s
def SrcList.warmL (o : Opts) : SrcList → SrcList
  | .nil => .nil
  | .cons s r => .cons (s.warm o) (r.warmL o)
end

mutual
theorem Src.warm_nc : ∀ (s : Src) (o : Opts), s.CachedOK → (s.warm o).NoCached
  | .raw .., _, _ | .rawStr .., _, _ | .rawBuf .., _, _ | .orig .., _, _ | .sms .., _, _ => trivial
  | .concat cs, o, h => by simp only [Src.CachedOK] at h; simp only [Src.warm, Src.NoCached]; exact SrcList.warmL_nc cs o h
  | .replace inner rs, o, h => by simp only [Src.CachedOK] at h; simp only [Src.warm, Src.NoCached]; exact h
  | .cached _ inner, o, _ => by simp only [Src.warm]; split <;> trivial
theorem SrcList.warmL_nc : ∀ (l : SrcList) (o : Opts), l.CachedOKs → (l.warmL o).NoCachedL
  | .nil, _, _ => trivial
  | .cons s r, o, h => ⟨Src.warm_nc s o h.1, SrcList.warmL_nc r o h.2⟩
end

mutual
theorem Src.warmFor_ok : ∀ (s : Src) (σ : Store) (o : Opts), s.WarmFor σ o → s.CachedOK
  | .raw .., _, _, _ | .rawStr .., _, _, _ | .rawBuf .., _, _, _ | .orig .., _, _, _ | .sms .., _, _, _ => trivial
  | .concat cs, σ, o, h => by simp only [Src.WarmFor] at h; simp only [Src.CachedOK]; exact SrcList.warmFors_ok cs σ o h
  | .replace inner rs, _, _, h => h
  | .cached _ _, _, _, _ => trivial
theorem SrcList.warmFors_ok : ∀ (l : SrcList) (σ : Store) (o : Opts), l.WarmFors σ o → l.CachedOKs
  | .nil, _, _, _ => trivial
  | .cons s r, σ, o, h => ⟨Src.warmFor_ok s σ o h.1, SrcList.warmFors_ok r σ o h.2⟩
end

mutual
theorem Src.stream_warm : ∀ (s : Src) (o : Opts) (σ : Store), s.WarmFor σ o → s.stream o σ = (((s.warm o).stream o []).1, σ)
  | .raw .., _, _, _ | .rawStr .., _, _, _ | .rawBuf .., _, _, _ | .orig .., _, _, _ => rfl
  | .sms t name map origSrc inner remove, o, σ, _ => by simp only [Src.warm, Src.stream]; cases inner <;> rfl
  | .concat .nil, _, _, _ => rfl
  | .concat (.cons s rest), o, σ, h => by
    simp only [Src.WarmFor, SrcList.WarmFors] at h
    have h1 := Src.stream_warm s o σ h.1
    cases hr : rest with
    | nil => simp only [Src.warm, SrcList.warmL, Src.stream]; exact h1
    | cons s2 rest2 =>
      have h2 := SrcList.streams_warm (.cons s2 rest2) o σ (hr ▸ h.2)
      simp only [Src.warm, SrcList.warmL, Src.stream]
      rw [h1]
      simp only []
      simp only [SrcList.warmL] at h2
      rw [h2]
      simp only []
      have hok := SrcList.warmFors_ok (.cons s2 rest2) σ o (hr ▸ h.2)
      have e := (SrcList.streams_nc (SrcList.cons (s2.warm o) (rest2.warmL o)) o ((s.warm o).stream o []).2 (SrcList.warmL_nc (.cons s2 rest2) o hok)).2
      rw [e]
  | .replace inner rs, o, σ, h => by
    simp only [Src.WarmFor] at h
    simp only [Src.warm, Src.stream]
    obtain ⟨a1, a2⟩ := Src.stream_nc inner ⟨o.columns, false⟩ σ h
    rw [a2]
    have : (inner.stream ⟨o.columns, false⟩ σ).2 = σ := a1
    rw [this]
  | .cached id inner, o, σ, h => by
    simp only [Src.WarmFor] at h
    simp only [Src.stream, h, Src.warm]
    cases hm : mapOfEvs o.columns (inner.strip.stream o []).1.evs with
    | none => rfl
    | some m => rfl
theorem SrcList.streams_warm : ∀ (l : SrcList) (o : Opts) (σ : Store), l.WarmFors σ o → l.streams o σ = (((l.warmL o).streams o []).1, σ)
  | .nil, _, _, _ => rfl
  | .cons s rest, o, σ, h => by
    simp only [SrcList.WarmFors] at h
    simp only [SrcList.warmL, SrcList.streams]
    rw [Src.stream_warm s o σ h.1]
    simp only []
    rw [SrcList.streams_warm rest o σ h.2]
    simp only []
    have hok := SrcList.warmFors_ok rest σ o h.2
    have e := (SrcList.streams_nc (rest.warmL o) o ((s.warm o).stream o []).2 (SrcList.warmL_nc rest o hok)).2
    rw [e]
end


/-! ## the replay tree attributes like the cache-free tree (name level, columns = true, normal mode) -/

mutual
theorem Src.strip_of_nc : ∀ (s : Src), s.NoCached → s.strip = s
  | .raw .., _ | .rawStr .., _ | .rawBuf .., _ | .orig .., _ | .sms .., _ => rfl
  | .concat cs, h => by simp only [Src.NoCached] at h; simp only [Src.strip]; rw [SrcList.stripL_of_nc cs h]
  | .replace inner rs, h => by simp only [Src.NoCached] at h; simp only [Src.strip]; rw [Src.strip_of_nc inner h]
  | .cached _ _, h => by simp [Src.NoCached] at h
theorem SrcList.stripL_of_nc : ∀ (l : SrcList), l.NoCachedL → l.stripL = l
  | .nil, _ => rfl
  | .cons s r, h => by simp only [SrcList.stripL]; rw [Src.strip_of_nc s h.1, SrcList.stripL_of_nc r h.2]
end

mutual
/-- what the warm-cache theorem asks of the tree: no CachedSource beneath a ReplaceSource; every cached subtree in the domain of
C02 with ASCII text (the replay counts chars, the stream bytes) and mapping values below 2³¹; map indices inside their tables -/
def Src.WarmHyp : Src → Prop
  | .sms t n map os inner rm => (Src.sms t n map os inner rm).IdxHyp
  | .concat cs => cs.WarmHyps
  | .replace inner _ => inner.NoCached ∧ inner.IdxHyp
  | .cached _ inner => inner.strip.WF ∧ inner.strip.PosHyp true ∧ inner.strip.IdxHyp ∧ IsAscii inner.src ∧ inner.src.length ≤ USIZE_MAX
      ∧ (∀ m ∈ chunkMs (inner.strip.stream ⟨true, false⟩ []).1.evs, m.small)
  | _ => True
def SrcList.WarmHyps : SrcList → Prop
  | .nil => True
  | .cons s r => s.WarmHyp ∧ r.WarmHyps
end

theorem nc_facts (s : Src) (h : s.NoCached) : s.ids.Nodup ∧ StoreIdx [] s.cachedNodes ∧ s.cachedNodes = [] := by
  have hn := Src.nc_nodes s h
  exact ⟨by simp [Src.ids, hn], (fun p hp => by rw [hn] at hp; cases hp), hn⟩

theorem stream_declOK_nc (s : Src) (o : Opts) (h : s.NoCached) (hi : s.IdxHyp) : DeclOK 0 0 (s.stream o []).1.evs := by
  obtain ⟨a, b, _⟩ := nc_facts s h
  exact Src.stream_declOK s o [] hi a b

theorem SrcList.streams_nc_map : ∀ (l : SrcList) (o : Opts) (σ : Store), l.NoCachedL →
    (l.streams o σ).1 = l.toList.map fun s => (s.stream o []).1
  | .nil, _, _, _ => rfl
  | .cons s rest, o, σ, h => by
    simp only [SrcList.NoCachedL] at h
    simp only [SrcList.streams, SrcList.toList, List.map_cons]
    rw [(Src.stream_nc s o σ h.1).2, SrcList.streams_nc_map rest o _ h.2]

/-- the cached node: its replay resolves every byte like the stream it was built from -/
theorem replay_leaf_NA (id : Nat) (inner : Src) (hw : inner.strip.WF) (hp : inner.strip.PosHyp true) (hi : inner.strip.IdxHyp)
    (ha : IsAscii inner.src) (hl : inner.src.length ≤ USIZE_MAX)
    (hsmall : ∀ m ∈ chunkMs (inner.strip.stream ⟨true, false⟩ []).1.evs, m.small) :
    NA (((Src.cached id inner).warm ⟨true, false⟩).stream ⟨true, false⟩ []).1.evs = NA (inner.strip.stream ⟨true, false⟩ []).1.evs
    ∧ ((Src.cached id inner).warm ⟨true, false⟩).IdxHyp := by
  have hnc := Src.strip_nc inner
  obtain ⟨hn, hsi, hnodes⟩ := nc_facts inner.strip hnc
  have hpos := Src.stream_posOK inner.strip true [] hw hp hn (fun p hp' => by rw [hnodes] at hp'; cases hp')
  have htok := Src.stream_tok inner.strip true []
  have htl := Src.stream_tl inner.strip true []
  have hMN := Src.stream_mappedNE' inner.strip true []
  have htext := Src.stream_text inner.strip true [] hw
  rw [Src.strip_src] at htext
  have hd := stream_declOK_nc inner.strip ⟨true, false⟩ hnc hi
  simp only [Src.warm]
  cases hm : mapOfEvs true (inner.strip.stream ⟨true, false⟩ []).1.evs with
  | some sm =>
    simp only [Src.stream, streamSM]
    have := replay_names (inner.strip.stream ⟨true, false⟩ []).1 hpos htok htl hMN (by rw [htext]; exact ha) (by rw [htext]; exact hl) hsmall hd sm hm
    rw [htext] at this
    refine ⟨this, ?_⟩
    simp only [Src.IdxHyp]
    exact mapOfEvs_idxOK _ hd hsmall (linesOK_of_sorted _ 1 0 (chunkMs_sorted _ [] hpos.1 htl)) sm hm
  | none =>
    simp only [Src.stream]
    refine ⟨?_, trivial⟩
    have hr := replay_none (inner.strip.stream ⟨true, false⟩ []).1 hpos htok htl hsmall (mapOfEvs_none _ hm)
    rw [htext] at hr
    unfold NA
    rw [attrN_end_tables _ 0 0 emptyS emptyN hd, attrN_end_tables _ 0 0 emptyS emptyN (streamRaw_declOK inner.src ⟨true, false⟩ 0 0), hr]
    -- both sides: every entry is `none` (the raw stream maps nothing)
    have hnone : ∀ a ∈ attrOf (inner.strip.stream ⟨true, false⟩ []).1.evs, a = none := by
      intro a ha'
      rw [← hr] at ha'
      obtain ⟨m, hm1, rfl⟩ := attrOf_mem _ a ha'
      obtain ⟨t, ht⟩ := chunkMs_mem_ev _ m hm1
      simp only [streamRaw, Bool.false_eq_true, if_false] at ht
      exact rawChunks_unmapped _ _ t m ht
    rw [List.map_map, List.map_map]
    apply List.map_congr_left
    intro a ha'
    rw [hnone a ha']
    rfl


theorem noCachedL_mem : ∀ (l : SrcList), l.NoCachedL → ∀ x ∈ l.toList, x.NoCached
  | .nil, _, x, hx => by cases hx
  | .cons s r, h, x, hx => by
    simp only [SrcList.toList, List.mem_cons] at hx
    rcases hx with rfl | hx
    · exact h.1
    · exact noCachedL_mem r h.2 x hx

theorem idxHyps_mem : ∀ (l : SrcList), l.IdxHyps → ∀ x ∈ l.toList, x.IdxHyp
  | .nil, _, x, hx => by cases hx
  | .cons s r, h, x, hx => by
    simp only [SrcList.toList, List.mem_cons] at hx
    rcases hx with rfl | hx
    · exact h.1
    · exact idxHyps_mem r h.2 x hx

/-- the stream of a ConcatSource over cache-free children, at name level -/
theorem concat_NA_nc (s : Src) (rest : SrcList) (hn : (SrcList.cons s rest).NoCachedL) (hi : (SrcList.cons s rest).IdxHyps) :
    NA ((Src.concat (.cons s rest)).stream ⟨true, false⟩ []).1.evs
      = ((SrcList.cons s rest).toList.map fun x => NA (x.stream ⟨true, false⟩ []).1.evs).flatten := by
  cases hr : rest with
  | nil => simp only [Src.stream, SrcList.toList, List.map_cons, List.map_nil, List.flatten_cons, List.flatten_nil, List.append_nil]
  | cons s2 rest2 =>
    have hlist : ((SrcList.cons s (SrcList.cons s2 rest2)).streams ⟨true, false⟩ []).1
        = (SrcList.cons s (SrcList.cons s2 rest2)).toList.map fun x => (x.stream ⟨true, false⟩ []).1 :=
      SrcList.streams_nc_map _ _ _ (hr ▸ hn)
    simp only [Src.stream]
    have e : (s.stream ⟨true, false⟩ []).1 :: ((SrcList.cons s2 rest2).streams ⟨true, false⟩ (s.stream ⟨true, false⟩ []).2).1
        = ((SrcList.cons s (SrcList.cons s2 rest2)).streams ⟨true, false⟩ []).1 := rfl
    rw [e, hlist]
    rw [concatStream_NA _ (by
      intro c hc
      obtain ⟨x, hx, rfl⟩ := List.mem_map.1 hc
      exact ⟨stream_declOK_nc x _ (noCachedL_mem _ (hr ▸ hn) x hx) (idxHyps_mem _ (hr ▸ hi) x hx), Src.stream_tl x true []⟩)]
    rw [List.map_map]
    rfl

mutual
theorem Src.warm_NA : ∀ (s : Src), s.WarmHyp → s.CachedOK →
    NA ((s.warm ⟨true, false⟩).stream ⟨true, false⟩ []).1.evs = NA (s.strip.stream ⟨true, false⟩ []).1.evs
    ∧ (s.warm ⟨true, false⟩).IdxHyp ∧ s.strip.IdxHyp
  | .raw .., _, _ | .rawStr .., _, _ | .rawBuf .., _, _ | .orig .., _, _ => ⟨rfl, trivial, trivial⟩
  | .sms t n map os inner rm, h, _ => ⟨rfl, h, h⟩
  | .concat .nil, _, _ => ⟨rfl, trivial, trivial⟩
  | .concat (.cons s rest), h, hk => by
    simp only [Src.WarmHyp] at h
    simp only [Src.CachedOK] at hk
    obtain ⟨b1, b2, b3⟩ := SrcList.warm_NAs (.cons s rest) h hk
    have hw := SrcList.warmL_nc (.cons s rest) ⟨true, false⟩ hk
    have hs := SrcList.stripL_nc (.cons s rest)
    simp only [Src.warm, Src.strip, Src.IdxHyp]
    refine ⟨?_, b2, b3⟩
    simp only [SrcList.warmL, SrcList.stripL] at b1 b2 b3 hw hs ⊢
    rw [concat_NA_nc _ _ hw b2, concat_NA_nc _ _ hs b3, b1]
  | .replace inner rs, h, _ => by
    simp only [Src.WarmHyp] at h
    simp only [Src.warm, Src.strip, Src.IdxHyp]
    rw [Src.strip_of_nc inner h.1]
    exact ⟨rfl, h.2, h.2⟩
  | .cached id inner, h, _ => by
    simp only [Src.WarmHyp] at h
    obtain ⟨h1, h2, h3, h4, h5, h6⟩ := h
    obtain ⟨a, b⟩ := replay_leaf_NA id inner h1 h2 h3 h4 h5 h6
    simp only [Src.strip]
    exact ⟨a, b, h3⟩
theorem SrcList.warm_NAs : ∀ (l : SrcList), l.WarmHyps → l.CachedOKs →
    ((l.warmL ⟨true, false⟩).toList.map fun x => NA (x.stream ⟨true, false⟩ []).1.evs)
      = (l.stripL.toList.map fun x => NA (x.stream ⟨true, false⟩ []).1.evs)
    ∧ (l.warmL ⟨true, false⟩).IdxHyps ∧ l.stripL.IdxHyps
  | .nil, _, _ => ⟨rfl, trivial, trivial⟩
  | .cons s r, h, hk => by
    obtain ⟨a1, a2, a3⟩ := Src.warm_NA s h.1 hk.1
    obtain ⟨b1, b2, b3⟩ := SrcList.warm_NAs r h.2 hk.2
    simp only [SrcList.warmL, SrcList.stripL, SrcList.toList, List.map_cons, SrcList.IdxHyps]
    exact ⟨by rw [a1, b1], ⟨a2, b2⟩, ⟨a3, b3⟩⟩
end

/-- **warm caches inside a tree** (columns = true, normal mode): after a first stream on cold caches, a second stream — in which
every outermost CachedSource answers from the map the first one stored — delivers the same text and resolves every byte to the same
file name, original line, original column and name as the first -/
theorem Src.second_stream_NA (s : Src) (σ : Store) (hn : s.ids.Nodup) (hc : Cold σ s.ids) (hk : s.CachedOK) (h : s.WarmHyp) :
    NA (s.stream ⟨true, false⟩ (s.stream ⟨true, false⟩ σ).2).1.evs = NA (s.stream ⟨true, false⟩ σ).1.evs := by
  have hfill := Src.stream_fills s ⟨true, false⟩ σ hk hn hc
  rw [Src.stream_warm s ⟨true, false⟩ _ hfill, Src.stream_strip s ⟨true, false⟩ σ hn hc]
  exact (Src.warm_NA s h hk).1


/-! ## regrouping at name level: only the sequence of leaves matters, whatever the leaves are -/

mutual
theorem Src.NA_leaves : ∀ (s : Src), s.NoCached → s.IdxHyp →
    NA (s.stream ⟨true, false⟩ []).1.evs = (s.leaves.map fun x => NA (x.stream ⟨true, false⟩ []).1.evs).flatten
  | .raw .., _, _ | .rawStr .., _, _ | .rawBuf .., _, _ | .orig .., _, _ | .sms .., _, _ | .replace .., _, _ | .cached .., _, _ => by
    simp [Src.leaves]
  | .concat .nil, _, _ => by simp [Src.leaves, SrcList.leavesL, Src.stream, concatStream, concatGo, NA, attrN]
  | .concat (.cons s rest), hn, hi => by
    simp only [Src.NoCached] at hn
    simp only [Src.IdxHyp] at hi
    rw [concat_NA_nc s rest hn hi]
    simp only [Src.leaves]
    exact SrcList.NA_leavesL (.cons s rest) hn hi
theorem SrcList.NA_leavesL : ∀ (l : SrcList), l.NoCachedL → l.IdxHyps →
    (l.toList.map fun x => NA (x.stream ⟨true, false⟩ []).1.evs).flatten = (l.leavesL.map fun x => NA (x.stream ⟨true, false⟩ []).1.evs).flatten
  | .nil, _, _ => rfl
  | .cons s r, hn, hi => by
    simp only [SrcList.toList, List.map_cons, List.flatten_cons, SrcList.leavesL, List.map_append, List.flatten_append]
    rw [Src.NA_leaves s hn.1 hi.1, SrcList.NA_leavesL r hn.2 hi.2]
end

/-- **two trees with the same sequence of leaves attribute every byte alike at name level** — any leaves (SourceMapSource with
any map whose indices lie in its tables, ReplaceSource nodes, …), any regrouping by ConcatSource, no assumption on contents -/
theorem NA_same_leaves (a b : Src) (ha : a.NoCached) (hb : b.NoCached) (ia : a.IdxHyp) (ib : b.IdxHyp) (h : a.leaves = b.leaves) :
    NA (a.stream ⟨true, false⟩ []).1.evs = NA (b.stream ⟨true, false⟩ []).1.evs := by
  rw [Src.NA_leaves a ha ia, Src.NA_leaves b hb ib, h]

end Rs
