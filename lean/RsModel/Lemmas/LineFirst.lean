import RsModel.Lemmas.Replay
import RsModel.Lemmas.ChunksTok
/-!
# The first mapped entry of a generated line (columns = false granularity)

`fsl L cur T A`: walk the bytes of `T` (the first one on line `cur`) together with their attribution entries `A`; the first entry
that is `some` among the bytes on line `L`.  For a normal-mode stream at true positions this is what `lookupLines` finds among the
chunk mappings (`fsl_find`), and it composes over concatenated texts (`fsl_append`), which is what lets line-granular attribution
pass through ConcatSource by way of the byte-level name attribution `NA`.
-/
namespace Rs

def fsl {α : Type} (L : Nat) : Nat → Text → List (Option α) → Option α
  | _, [], _ => none
  | _, _ :: _, [] => none
  | cur, b :: bs, a :: as =>
    if cur = L then (match a with
      | some x => some x
      | none => fsl L (if b = NL then cur + 1 else cur) bs as)
    else fsl L (if b = NL then cur + 1 else cur) bs as

/-- the line the byte after `t` is on, when `t` starts on line `cur` -/
def lineAfter : Nat → Text → Nat
  | cur, [] => cur
  | cur, b :: bs => lineAfter (if b = NL then cur + 1 else cur) bs

theorem fsl_nilA {α : Type} (L cur : Nat) (T : Text) : fsl L cur T ([] : List (Option α)) = none := by
  cases T <;> rfl

theorem lineAfter_append : ∀ (a b : Text) (cur : Nat), lineAfter cur (a ++ b) = lineAfter (lineAfter cur a) b := by
  intro a
  induction a with
  | nil => intro b cur; rfl
  | cons x xs ih => intro b cur; simp only [List.cons_append, lineAfter]; exact ih b _

theorem lineAfter_adv : ∀ (t : Text) (p : Pos), (adv p t).line = lineAfter p.line t := by
  intro t
  induction t with
  | nil => intro p; rfl
  | cons c cs ih =>
    intro p
    simp only [adv, lineAfter]
    split
    · rw [ih]
    · rw [ih]

theorem lineAfter_noNL : ∀ (t : Text) (cur : Nat), (∀ c ∈ t, c ≠ NL) → lineAfter cur t = cur := by
  intro t
  induction t with
  | nil => intro cur _; rfl
  | cons c cs ih =>
    intro cur h
    simp only [lineAfter, h c (by simp), if_false]
    exact ih cur (fun x hx => h x (by simp [hx]))

theorem lineAfter_ge : ∀ (t : Text) (cur : Nat), cur ≤ lineAfter cur t := by
  intro t
  induction t with
  | nil => intro cur; exact Nat.le_refl _
  | cons c cs ih =>
    intro cur
    simp only [lineAfter]
    split
    · exact Nat.le_trans (Nat.le_succ _) (ih _)
    · exact ih _

theorem fsl_map {α β : Type} (f : α → β) (L : Nat) : ∀ (T : Text) (cur : Nat) (A : List (Option α)),
    fsl L cur T (A.map (Option.map f)) = (fsl L cur T A).map f := by
  intro T
  induction T with
  | nil => intro cur A; rfl
  | cons b bs ih =>
    intro cur A
    cases A with
    | nil => rfl
    | cons a as =>
      simp only [List.map_cons, fsl]
      split
      · cases a with
        | none => exact ih _ _
        | some x => rfl
      · exact ih _ _

theorem fsl_shift {α : Type} (k L : Nat) : ∀ (T : Text) (cur : Nat) (A : List (Option α)), fsl (L + k) (cur + k) T A = fsl L cur T A := by
  intro T
  induction T with
  | nil => intro cur A; rfl
  | cons b bs ih =>
    intro cur A
    cases A with
    | nil => rfl
    | cons a as =>
      simp only [fsl]
      have e : (if b = NL then cur + k + 1 else cur + k) = (if b = NL then cur + 1 else cur) + k := by split <;> omega
      by_cases h : cur = L
      · subst h
        simp only [if_true]
        cases a with
        | some x => rfl
        | none => simp only; rw [e]; exact ih _ _
      · have : cur + k ≠ L + k := by omega
        simp only [h, this, if_false]
        rw [e]; exact ih _ _

theorem fsl_lt {α : Type} (L : Nat) : ∀ (T : Text) (cur : Nat) (A : List (Option α)), L < cur → fsl L cur T A = none := by
  intro T
  induction T with
  | nil => intro cur A _; rfl
  | cons b bs ih =>
    intro cur A h
    cases A with
    | nil => rfl
    | cons a as =>
      have : cur ≠ L := by omega
      simp only [fsl, this, if_false]
      exact ih _ _ (by split <;> omega)

/-- bytes not on line `L` are skipped -/
theorem fsl_skip_noNL {α : Type} (L : Nat) : ∀ (t : Text) (cur : Nat) (T' : Text) (A : List (Option α)), (∀ c ∈ t, c ≠ NL) → cur ≠ L →
    fsl L cur (t ++ T') A = fsl L cur T' (A.drop t.length) := by
  intro t
  induction t with
  | nil => intro cur T' A _ _; rfl
  | cons c cs ih =>
    intro cur T' A h hne
    cases A with
    | nil => simp only [List.cons_append, List.drop_nil]; rw [fsl_nilA, fsl_nilA]
    | cons a as =>
      simp only [List.cons_append, fsl, hne, if_false, h c (by simp), List.length_cons, List.drop_succ_cons]
      exact ih cur T' as (fun x hx => h x (by simp [hx])) hne

theorem fsl_skip_nl {α : Type} (L cur : Nat) (T' : Text) (A : List (Option α)) (hne : cur ≠ L) :
    fsl L cur (NL :: T') A = fsl L (cur + 1) T' (A.drop 1) := by
  cases A with
  | nil => simp only [List.drop_nil]; rw [fsl_nilA, fsl_nilA]
  | cons a as => simp only [fsl, hne, if_false, if_true, List.drop_succ_cons, List.drop_zero]

/-- a potential token not on line `L` is skipped -/
theorem fsl_tok_ne {α : Type} (L cur : Nat) (t T' : Text) (A : List (Option α)) (hT : TokOK t) (hne : cur ≠ L) :
    fsl L cur (t ++ T') A = fsl L (lineAfter cur t) T' (A.drop t.length) := by
  obtain ⟨s, hs, hc⟩ := hT
  rcases hc with rfl | rfl
  · rw [fsl_skip_noNL L t cur T' A hs hne, lineAfter_noNL t cur hs]
  · rw [List.append_assoc, fsl_skip_noNL L s cur _ A hs hne, List.singleton_append, fsl_skip_nl L cur T' _ hne, lineAfter_append,
      lineAfter_noNL s cur hs, List.drop_drop, List.length_append]
    simp only [lineAfter, if_true, List.length_singleton]

/-- unmapped bytes are passed over -/
theorem fsl_none_run {α : Type} (L : Nat) : ∀ (t : Text) (cur : Nat) (T' : Text) (A' : List (Option α)),
    fsl L cur (t ++ T') (List.replicate t.length none ++ A') = fsl L (lineAfter cur t) T' A' := by
  intro t
  induction t with
  | nil => intro cur T' A'; rfl
  | cons c cs ih =>
    intro cur T' A'
    simp only [List.cons_append, List.length_cons, List.replicate_succ, fsl, lineAfter]
    split
    · exact ih _ T' A'
    · exact ih _ T' A'

theorem fsl_append {α : Type} (L : Nat) : ∀ (T1 : Text) (cur : Nat) (T2 : Text) (A1 A2 : List (Option α)), A1.length = T1.length →
    fsl L cur (T1 ++ T2) (A1 ++ A2) = (match fsl L cur T1 A1 with
      | some x => some x
      | none => fsl L (lineAfter cur T1) T2 A2) := by
  intro T1
  induction T1 with
  | nil =>
    intro cur T2 A1 A2 h
    have : A1 = [] := List.eq_nil_of_length_eq_zero (by simpa using h)
    subst this
    rfl
  | cons b bs ih =>
    intro cur T2 A1 A2 h
    cases A1 with
    | nil => simp at h
    | cons a as =>
      have hl : as.length = bs.length := by simpa using h
      simp only [List.cons_append, fsl, lineAfter]
      split
      · cases a with
        | some x => rfl
        | none => exact ih _ T2 as A2 hl
      · exact ih _ T2 as A2 hl

/-- no byte lies beyond the last line -/
theorem fsl_lines_none {α : Type} (L : Nat) : ∀ (ls : List Text), Lines ls → ∀ (cur : Nat) (A : List (Option α)), cur + ls.length ≤ L →
    fsl L cur ls.flatten A = none := by
  intro ls h
  induction h with
  | nil => intro cur A _; rfl
  | last t _ hs =>
    intro cur A hle
    simp only [List.length_singleton] at hle
    have := fsl_skip_noNL L t cur [] A hs (by omega)
    simp only [List.append_nil] at this
    simp only [List.flatten_cons, List.flatten_nil, List.append_nil]
    rw [this]; rfl
  | lastNL t hs =>
    intro cur A hle
    simp only [List.length_singleton] at hle
    simp only [List.flatten_cons, List.flatten_nil, List.append_nil]
    rw [fsl_skip_noNL L t cur [NL] A hs (by omega), fsl_skip_nl L cur [] _ (by omega)]
    rfl
  | cons t rest hs _ _ ih =>
    intro cur A hle
    simp only [List.length_cons] at hle
    simp only [List.flatten_cons, List.append_assoc]
    rw [fsl_skip_noNL L t cur _ A hs (by omega), List.singleton_append, fsl_skip_nl L cur _ _ (by omega)]
    exact ih (cur + 1) _ (by omega)

/-- **what `lookupLines` finds**: in a normal-mode stream whose chunks stand at their true positions, are potential tokens and carry
text when mapped, the first mapped chunk on generated line `L` is the chunk of the first mapped byte on line `L` -/
theorem fsl_find (L : Nat) : ∀ (evs : List Ev) (pre : Text), posOKT pre evs → evsTL evs = false → MappedNE evs → ChunksTok evs →
    fsl L (adv startPos pre).line (evsText evs) (attrOf evs)
      = ((chunkMs evs).find? (fun m => m.gl == L && m.orig.isSome)).bind (·.orig) := by
  intro evs
  induction evs with
  | nil => intro pre _ _ _ _; rfl
  | cons e es ih =>
    intro pre hp hTL hMN hT
    have hTLs : evsTL es = false := by simp only [evsTL_cons, Bool.or_eq_false_iff] at hTL; exact hTL.2
    have hMNs : MappedNE es := fun t m hm h => hMN t m (by simp [hm]) h
    have hTs : ChunksTok es := fun t m hm => hT t m (by simp [hm])
    cases e with
    | chunk t m =>
      cases t with
      | none => simp [evsTL_cons, Ev.textless] at hTL
      | some t =>
        simp only [posOKT] at hp
        have hcur : (adv startPos pre).line = m.gl := by rw [← hp.1]
        have htok := hT t m (by simp)
        have hnext : (adv startPos (pre ++ t)).line = lineAfter m.gl t := by rw [adv_append, lineAfter_adv, hcur]
        have hih := ih (pre ++ t) hp.2 hTLs hMNs hTs
        rw [hnext] at hih
        simp only [evsText_cons, Ev.text, attrOf, chunkMs, List.find?_cons]
        rw [hcur]
        by_cases hL : m.gl = L
        · cases ho : m.orig with
          | none =>
            simp only [ho, Option.isSome_none, Bool.and_false]
            rw [fsl_none_run, hih]
          | some x =>
            have hne := hMN t m (by simp) (by rw [ho]; rfl)
            simp only [hL, beq_self_eq_true, Option.isSome_some, Bool.and_self, Option.bind_some, ho]
            cases t with
            | nil => exact absurd rfl hne
            | cons b bs => simp only [List.cons_append, List.length_cons, List.replicate_succ, fsl, if_true]
        · have hb : (m.gl == L) = false := by simpa using hL
          simp only [hb, Bool.false_and]
          rw [fsl_tok_ne L m.gl t _ _ htok hL, List.drop_left' (by simp), hih]
    | source i s c =>
      have := ih pre hp hTLs hMNs hTs
      simpa [evsText_cons, Ev.text, attrOf, chunkMs] using this
    | name i n =>
      have := ih pre hp hTLs hMNs hTs
      simpa [evsText_cons, Ev.text, attrOf, chunkMs] using this

end Rs
