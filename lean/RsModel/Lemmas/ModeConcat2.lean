import RsModel.Lemmas.ModeConcat1
/-! # ConcatSource lookups, part 2: one whole child, and what the walker remembers afterwards -/
namespace Rs

/-- `last_mapping_line` after the child's events: the line of the last chunk if that chunk is (still) mapped -/
def lastML (init : Nat) (ms : List Mapping) : Nat :=
  match ms.getLast? with
  | none => init
  | some m => if m.orig.isNone then 0 else m.gl

theorem lastML_cons (init : Nat) (m : Mapping) (ms : List Mapping) :
    lastML init (m :: ms) = lastML (if m.orig.isNone then 0 else m.gl) ms := by
  unfold lastML
  cases ms with
  | nil => rfl
  | cons x xs =>
    rw [List.getLast?_cons_cons]
    cases h : (x :: xs).getLast? with
    | none => simp at h
    | some z => rfl

theorem concatEvs_state (final : Bool) : ∀ (evs : List Ev) (st : CSt),
    (concatEvs final st evs).1.lineOff = st.lineOff ∧ (concatEvs final st evs).1.colOff = st.colOff
    ∧ (concatEvs final st evs).1.needClose = (if hasChunk evs then false else st.needClose)
    ∧ (concatEvs final st evs).1.lastMappingLine = lastML st.lastMappingLine (trMs final st evs)
    ∧ (hasChunk evs = false → trMs final st evs = []) := by
  intro evs
  induction evs with
  | nil => intro st; simp [concatEvs, hasChunk, trMs, lastML]
  | cons e es ih =>
    intro st
    obtain ⟨i1, i2, i3, i4, i5⟩ := ih (concatEv final st e).1
    simp only [concatEvs]
    cases e with
    | chunk t m =>
      have hst := concatEv_chunk_st final st t m
      refine ⟨by rw [i1, hst], by rw [i2, hst], ?_, ?_, fun h => by simp [hasChunk] at h⟩
      · rw [i3, hst]; simp [hasChunk]
      · rw [i4]
        simp only [trMs, lastML_cons]
        rw [hst]
    | source i s c =>
      obtain ⟨d1, d2, d3, d4, d5⟩ := concatEv_decl_ms final st (.source i s c) rfl
      refine ⟨by rw [i1, d3], by rw [i2, d4], by rw [i3, d2]; rfl, by rw [i4, d5]; rfl, fun h => ?_⟩
      simp only [trMs]; exact i5 (by simpa [hasChunk] using h)
    | name i n =>
      obtain ⟨d1, d2, d3, d4, d5⟩ := concatEv_decl_ms final st (.name i n) rfl
      refine ⟨by rw [i1, d3], by rw [i2, d4], by rw [i3, d2]; rfl, by rw [i4, d5]; rfl, fun h => ?_⟩
      simp only [trMs]; exact i5 (by simpa [hasChunk] using h)

/-- the walker state a child starts from -/
def childStart (st : CSt) : CSt := { st with sim := [], nim := [], lastMappingLine := 0 }

theorem firstOff_noChunk : ∀ (evs : List Ev), hasChunk evs = false → firstOff evs = false := by
  intro evs
  induction evs with
  | nil => intro _; rfl
  | cons e es ih => intro h; cases e <;> simp_all [hasChunk, firstOff]

/-- does the ConcatSource deliver a closing (unmapped) mapping at the child's origin? -/
def closes (st : CSt) (child : SResult) : Prop :=
  st.needClose = true ∧ (firstOff child.evs = true ∨ (hasChunk child.evs = false ∧ (child.info.line != 1 || child.info.col != 0) = true))

instance (st : CSt) (child : SResult) : Decidable (closes st child) := by unfold closes; infer_instance

/-- **lookups through one child** -/
theorem concatChild_look (final : Bool) (l' c' : Nat) (st : CSt) (child : SResult) (acc0 : Option (Option Orig)) :
    lookupGo (shiftL st l') (shiftC st l' c') acc0 (chunkMs (concatChild final st child).2) =
      match lookupGo l' c' none (trMs final (childStart st) child.evs) with
      | some x => some x
      | none => if closes st child ∧ l' = 1 then some none else acc0 := by
  obtain ⟨s1, s2, s3, s4, s5⟩ := concatEvs_state final child.evs (childStart st)
  simp only [concatChild, chunkMs_app, lookupGo_append]
  have e1 : shiftL (childStart st) l' = shiftL st l' := rfl
  have e2 : shiftC (childStart st) l' c' = shiftC st l' c' := rfl
  change lookupGo _ _ (lookupGo (shiftL st l') (shiftC st l' c') acc0 (chunkMs (concatEvs final (childStart st) child.evs).2)) _ = _
  rw [← e1, ← e2, concatEvs_look, e1, e2]
  -- the close at the end of a child without chunks
  have hcl : chunkMs (if ((concatEvs final (childStart st) child.evs).1.needClose && (child.info.line != 1 || child.info.col != 0)) = true
        then [Ev.chunk none ⟨(concatEvs final (childStart st) child.evs).1.lineOff + 1, (concatEvs final (childStart st) child.evs).1.colOff, none⟩] else [])
      = (if ((concatEvs final (childStart st) child.evs).1.needClose && (child.info.line != 1 || child.info.col != 0)) = true
        then [(⟨st.lineOff + 1, st.colOff, none⟩ : Mapping)] else []) := by
    split
    · simp only [chunkMs]; rw [s1, s2]; rfl
    · rfl
  change lookupGo _ _ _ (chunkMs (if ((concatEvs final (childStart st) child.evs).1.needClose && (child.info.line != 1 || child.info.col != 0)) = true
        then [Ev.chunk none ⟨(concatEvs final (childStart st) child.evs).1.lineOff + 1, (concatEvs final (childStart st) child.evs).1.colOff, none⟩] else [])) = _
  rw [hcl, lookupGo_close, s3]
  have hnc : (childStart st).needClose = st.needClose := rfl
  rw [hnc]
  by_cases hch : hasChunk child.evs = true
  · -- the child has chunks: no close at its end
    simp only [hch, if_true, Bool.false_and, Bool.false_eq_true, false_and, if_false]
    cases hr : lookupGo l' c' none (trMs final (childStart st) child.evs) with
    | some x => rfl
    | none =>
      simp only
      have : (st.needClose = true ∧ l' = 1 ∧ firstOff child.evs = true) ↔ (closes st child ∧ l' = 1) := by
        unfold closes
        constructor
        · rintro ⟨a, b, c⟩; exact ⟨⟨a, Or.inl c⟩, b⟩
        · rintro ⟨⟨a, c⟩, b⟩
          rcases c with c | c
          · exact ⟨a, b, c⟩
          · rw [hch] at c; cases c.1
      simp only [this]
  · have hch' : hasChunk child.evs = false := by simpa using hch
    have hfo := firstOff_noChunk _ hch'
    simp only [hch', Bool.false_eq_true, if_false, s5 hch', lookupGo, hfo, and_false, if_false]
    have : ((st.needClose && (child.info.line != 1 || child.info.col != 0)) = true ∧ st.lineOff + 1 = shiftL st l' ∧ st.colOff ≤ shiftC st l' c')
        ↔ (closes st child ∧ l' = 1) := by
      unfold closes shiftL shiftC
      constructor
      · rintro ⟨a, b, _⟩
        simp only [Bool.and_eq_true] at a
        exact ⟨⟨a.1, Or.inr ⟨hch', a.2⟩⟩, by omega⟩
      · rintro ⟨⟨a, c⟩, b⟩
        subst b
        rcases c with c | c
        · rw [hfo] at c; cases c
        · exact ⟨by simp only [Bool.and_eq_true]; exact ⟨a, c.2⟩, by omega, by simp⟩
    simp only [this]

/-! ## the last chunk -/

theorem linesOK_ge : ∀ (ms : List Mapping) (l : Nat), linesOK l ms → ∀ x ∈ ms, l ≤ x.gl := by
  intro ms
  induction ms with
  | nil => intro l _ x hx; simp at hx
  | cons m ms ih =>
    intro l ⟨h1, h2⟩ x hx
    simp only [List.mem_cons] at hx
    rcases hx with rfl | hx
    · exact h1
    · exact Nat.le_trans h1 (ih _ h2 x hx)

/-- on the last line of a sorted list that stays before `(l, ce)`, a lookup at or after column `ce` finds the very last entry -/
theorem lookup_lastLine (l c ce : Nat) (hc : ce ≤ c) : ∀ (ms : List Mapping) (l0 : Nat), linesOK l0 ms →
    (∀ m ∈ ms, m.gl < l ∨ (m.gl = l ∧ m.gc ≤ ce)) →
    lookupGo l c none ms = match ms.getLast? with | some m => if m.gl = l then some m.orig else none | none => none := by
  intro ms
  induction ms with
  | nil => intro _ _ _; rfl
  | cons m ms ih =>
    intro l0 hl hb
    obtain ⟨h1, h2⟩ := hl
    have hbm := hb m (by simp)
    have ihh := ih m.gl h2 (fun x hx => hb x (by simp [hx]))
    simp only [lookupGo]
    rw [lookupGo_acc, ihh]
    cases ms with
    | nil =>
      simp only [List.getLast?_nil, List.getLast?_singleton]
      by_cases hm : m.gl = l
      · have : m.gl = l ∧ m.gc ≤ c := ⟨hm, by rcases hbm with h | h <;> omega⟩
        simp [this, hm]
      · have : ¬ (m.gl = l ∧ m.gc ≤ c) := fun h => hm h.1
        simp [this, hm]
    | cons x xs =>
      rw [List.getLast?_cons_cons]
      cases hz : (x :: xs).getLast? with
      | none => simp at hz
      | some z =>
        simp only
        by_cases hzl : z.gl = l
        · simp [hzl]
        · simp only [hzl, if_false]
          have hzmem : z ∈ x :: xs := List.mem_of_getLast? hz
          have hmz : m.gl ≤ z.gl := linesOK_ge _ _ h2 z hzmem
          have hzb := hb z (by simp only [List.mem_cons] at hzmem ⊢; exact Or.inr hzmem)
          have : ¬ (m.gl = l ∧ m.gc ≤ c) := by
            intro h; rcases hzb with g | g <;> omega
          simp [this]

end Rs
