import RsModel.Lemmas.Lines
import RsModel.Model.Composite
/-!
# ReplaceSource: the streamed chunk texts are the `source()` splice (C01)

A text-only rendering of the callback (`loopR` / `stepR` / `streamR`) is proved equal to `specGo`
(the `source()` loop) for ANY chunking of the inner text; the full callback model is then shown to
produce exactly that text.
-/
namespace Rs

theorem take_app_ge (a t : Text) (n : Nat) (h : a.length ≤ n) : (a ++ t).take n = a ++ t.take (n - a.length) := by
  rw [List.take_append]; simp [List.take_of_length_le h]

theorem drop_app_ge (a t : Text) (n : Nat) (h : a.length ≤ n) : (a ++ t).drop n = t.drop (n - a.length) := by
  rw [List.drop_append]; simp [List.drop_of_length_le h]

theorem specGo_shift (a tail : Text) (pos : Nat) (r : Repl) (rs : List Repl)
    (h1 : pos + a.length ≤ r.start) (h2 : r.start ≤ r.stop) :
    specGo pos (a ++ tail) (r :: rs) = a ++ specGo (pos + a.length) tail (r :: rs) := by
  simp only [specGo]
  rw [take_app_ge a tail _ (by omega), drop_app_ge a tail _ (by omega)]
  have e1 : r.start - pos - a.length = r.start - (pos + a.length) := by omega
  have e2 : max pos r.stop - pos - a.length = max (pos + a.length) r.stop - (pos + a.length) := by omega
  have e3 : pos + min (max pos r.stop - pos) (a ++ tail).length
      = pos + a.length + min (max (pos + a.length) r.stop - (pos + a.length)) tail.length := by
    simp only [List.length_append]; omega
  rw [e1, e2, e3]; simp [List.append_assoc]

/-- text-only rendering of the `while let Some(next_replacement_pos)` loop for one chunk: emitted text, new
`(pos, remaining replacements, replacement_end)` and `some chunk_pos` when control falls through to
"emit remaining chunk", `none` when the callback returned early -/
def loopR (chunk : Text) (endPos : Nat) : List Repl → Nat → Nat → Nat → Text × (Nat × List Repl × Nat) × Option Nat
  | [], cp, pos, re => ([], (pos, [], re), some cp)
  | r :: rs, cp, pos, re =>
    if r.start < endPos then
      let piece := if r.start > pos then (chunk.drop cp).take (r.start - pos) else []
      let cp1 := if r.start > pos then cp + (r.start - pos) else cp
      let pos1 := if r.start > pos then r.start else pos
      let re1 := max re r.stop
      if re1 > pos1 then
        if re1 ≥ endPos then (piece ++ r.content, (endPos, rs, re1), none)
        else
          let res := loopR chunk endPos rs (cp1 + (re1 - pos1)) re1 re1
          (piece ++ r.content ++ res.1, res.2)
      else
        let res := loopR chunk endPos rs cp1 pos1 re1
        (piece ++ r.content ++ res.1, res.2)
    else ([], (pos, r :: rs, re), some cp)

def stepR (st : Nat × List Repl × Nat) (chunk : Text) : Text × (Nat × List Repl × Nat) :=
  let pos := st.1; let rs := st.2.1; let re := st.2.2
  let endPos := pos + chunk.length
  if re > pos ∧ re ≥ endPos then ([], (endPos, rs, re))
  else
    let cp0 := if re > pos then re - pos else 0
    let pos0 := if re > pos then re else pos
    match loopR chunk endPos rs cp0 pos0 re with
    | (o, s, none) => (o, s)
    | (o, (_, rs', re'), some cp) => (o ++ chunk.drop cp, (endPos, rs', re'))

def streamR : (Nat × List Repl × Nat) → List Text → Text
  | st, [] => (st.2.1.map (·.content)).flatten
  | st, c :: cs => let r := stepR st c; r.1 ++ streamR r.2 cs

/-- the not-yet-consumed suffix of the inner text, given the lazily recorded skip mark `re` -/
def pend (pos re : Nat) (rest : Text) : Text := rest.drop (max pos re - pos)
def ppos (pos re : Nat) (rest : Text) : Nat := pos + min (max pos re - pos) rest.length

theorem specGo_nil_rest (pos : Nat) (rs : List Repl) : specGo pos [] rs = (rs.map (·.content)).flatten := by
  induction rs generalizing pos with
  | nil => rfl
  | cons r rs ih => simp [specGo, ih]

def afterLoop (chunk tail : Text) (endPos : Nat) (res : Text × (Nat × List Repl × Nat) × Option Nat) : Text :=
  match res.2.2 with
  | none => specGo (ppos res.2.1.1 res.2.1.2.2 tail) (pend res.2.1.1 res.2.1.2.2 tail) res.2.1.2.1
  | some cp' => chunk.drop cp' ++ specGo endPos tail res.2.1.2.1

theorem loopR_spec (chunk tail : Text) (cs : Nat) (rs : List Repl) (hwf : ∀ r ∈ rs, r.start ≤ r.stop) :
    ∀ (cp pos re : Nat), pos = cs + cp → cp ≤ chunk.length → re ≤ pos →
    specGo pos (chunk.drop cp ++ tail) rs
      = (loopR chunk (cs + chunk.length) rs cp pos re).1
        ++ afterLoop chunk tail (cs + chunk.length) (loopR chunk (cs + chunk.length) rs cp pos re)
    ∧ (∀ cp', (loopR chunk (cs + chunk.length) rs cp pos re).2.2 = some cp' →
        (loopR chunk (cs + chunk.length) rs cp pos re).2.1.2.2 ≤ cs + chunk.length)
    ∧ (∀ x ∈ (loopR chunk (cs + chunk.length) rs cp pos re).2.1.2.1, x ∈ rs) := by
  induction rs with
  | nil =>
    intro cp pos re hpos hcp hre
    simp [loopR, afterLoop, specGo]; omega
  | cons r rs ih =>
    intro cp pos re hpos hcp hre
    have hr : r.start ≤ r.stop := hwf r (by simp)
    have ih' := ih (fun x hx => hwf x (by simp [hx]))
    have hlen : (chunk.drop cp).length = chunk.length - cp := by simp
    unfold loopR
    by_cases hlt : r.start < cs + chunk.length
    · simp only [hlt, if_true]
      have htake : (chunk.drop cp ++ tail).take (r.start - pos)
          = (if r.start > pos then (chunk.drop cp).take (r.start - pos) else []) := by
        split
        · rw [List.take_append_of_le_length (by omega)]
        · have : r.start - pos = 0 := by omega
          simp [this]
      by_cases hskip : max re r.stop > (if r.start > pos then r.start else pos)
      · simp only [hskip, if_true]
        have hre1 : max re r.stop = r.stop := by split at hskip <;> omega
        have hmax : max pos r.stop = r.stop := by split at hskip <;> omega
        by_cases hend : max re r.stop ≥ cs + chunk.length
        · simp only [hend, if_true, afterLoop, ppos, pend]
          refine ⟨?_, by simp, fun x hx => by simp [hx]⟩
          simp only [specGo, htake, hmax, hre1, List.append_assoc]
          congr 2
          have hd : (chunk.drop cp ++ tail).drop (r.stop - pos) = tail.drop (max (cs + chunk.length) r.stop - (cs + chunk.length)) := by
            rw [drop_app_ge _ _ _ (by omega)]; congr 1; omega
          have hp : pos + min (r.stop - pos) (chunk.drop cp ++ tail).length
              = cs + chunk.length + min (max (cs + chunk.length) r.stop - (cs + chunk.length)) tail.length := by
            simp only [List.length_append, hlen]; omega
          rw [hd, hp]
        · simp only [hend, if_false]
          have hcp' : (if r.start > pos then cp + (r.start - pos) else cp) + (max re r.stop - (if r.start > pos then r.start else pos))
              = cp + (r.stop - pos) := by split <;> omega
          rw [hcp']
          obtain ⟨h1, h2, h3⟩ := ih' (cp + (r.stop - pos)) (max re r.stop) (max re r.stop) (by omega) (by omega) (by omega)
          refine ⟨?_, h2, fun x hx => by simp [h3 x hx]⟩
          simp only [specGo, htake, hmax, List.append_assoc]
          congr 2
          have hd : (chunk.drop cp ++ tail).drop (r.stop - pos) = chunk.drop (cp + (r.stop - pos)) ++ tail := by
            rw [List.drop_append_of_le_length (by omega), List.drop_drop]
          have hp : pos + min (r.stop - pos) (chunk.drop cp ++ tail).length = max re r.stop := by
            simp only [List.length_append, hlen]; omega
          rw [hd, hp]; exact h1
      · simp only [hskip, if_false]
        obtain ⟨h1, h2, h3⟩ := ih' (if r.start > pos then cp + (r.start - pos) else cp) (if r.start > pos then r.start else pos)
          (max re r.stop) (by split <;> omega) (by split <;> omega) (by omega)
        refine ⟨?_, h2, fun x hx => by simp [h3 x hx]⟩
        simp only [specGo, htake, List.append_assoc]
        congr 2
        have hd : (chunk.drop cp ++ tail).drop (max pos r.stop - pos)
            = chunk.drop (if r.start > pos then cp + (r.start - pos) else cp) ++ tail := by
          rw [List.drop_append_of_le_length (by split at hskip <;> omega), List.drop_drop]
          congr 2; split at hskip <;> split <;> omega
        have hp : pos + min (max pos r.stop - pos) (chunk.drop cp ++ tail).length
            = (if r.start > pos then r.start else pos) := by
          simp only [List.length_append, hlen]; split at hskip <;> split <;> omega
        rw [hd, hp]; exact h1
    · simp only [hlt, if_false, afterLoop]
      refine ⟨?_, by intro cp' h; simp at h; omega, fun x hx => hx⟩
      have := specGo_shift (chunk.drop cp) tail pos r rs (by omega) hr
      simp only [List.nil_append]
      rw [this]; congr 2; omega

end Rs

namespace Rs

/-- the only early return of the loop leaves the position at the end of the chunk -/
theorem loopR_early (chunk : Text) (endPos : Nat) : ∀ (rs : List Repl) (cp p r : Nat),
    (loopR chunk endPos rs cp p r).2.2 = none → (loopR chunk endPos rs cp p r).2.1.1 = endPos := by
  intro rs
  induction rs with
  | nil => intro cp p r h; simp [loopR] at h
  | cons x xs ih =>
    intro cp p r h
    unfold loopR at h ⊢
    by_cases h1 : x.start < endPos
    · simp only [h1, if_true] at h ⊢
      by_cases h2 : max r x.stop > (if x.start > p then x.start else p)
      · simp only [h2, if_true] at h ⊢
        by_cases h3 : max r x.stop ≥ endPos
        · simp only [h3, if_true]
        · simp only [h3, if_false] at h ⊢; exact ih _ _ _ h
      · simp only [h2, if_false] at h ⊢; exact ih _ _ _ h
    · simp [h1] at h

theorem stepR_spec (chunk tail : Text) (pos re : Nat) (rs : List Repl) (hwf : ∀ r ∈ rs, r.start ≤ r.stop) :
    specGo (ppos pos re (chunk ++ tail)) (pend pos re (chunk ++ tail)) rs
      = (stepR (pos, rs, re) chunk).1
        ++ specGo (ppos (stepR (pos, rs, re) chunk).2.1 (stepR (pos, rs, re) chunk).2.2.2 tail)
                  (pend (stepR (pos, rs, re) chunk).2.1 (stepR (pos, rs, re) chunk).2.2.2 tail)
                  (stepR (pos, rs, re) chunk).2.2.1
    ∧ (∀ r ∈ (stepR (pos, rs, re) chunk).2.2.1, r.start ≤ r.stop)
    ∧ (stepR (pos, rs, re) chunk).2.1 = pos + chunk.length := by
  unfold stepR
  simp only
  by_cases hskip : re > pos ∧ re ≥ pos + chunk.length
  · simp only [hskip, and_self, if_true, List.nil_append]
    refine ⟨?_, hwf, trivial⟩
    unfold ppos pend
    have e1 : (chunk ++ tail).drop (max pos re - pos) = tail.drop (max (pos + chunk.length) re - (pos + chunk.length)) := by
      rw [drop_app_ge _ _ _ (by omega)]; congr 1; omega
    have e2 : pos + min (max pos re - pos) (chunk ++ tail).length
        = pos + chunk.length + min (max (pos + chunk.length) re - (pos + chunk.length)) tail.length := by
      simp only [List.length_append]; omega
    rw [e1, e2]
  · simp only [hskip, if_false]
    -- the suffix still to be looked at starts inside this chunk
    have hcp : (if re > pos then re - pos else 0) ≤ chunk.length := by split <;> omega
    have hpos0 : (if re > pos then re else pos) = pos + (if re > pos then re - pos else 0) := by split <;> omega
    have hlhs : specGo (ppos pos re (chunk ++ tail)) (pend pos re (chunk ++ tail)) rs
        = specGo (if re > pos then re else pos) (chunk.drop (if re > pos then re - pos else 0) ++ tail) rs := by
      unfold ppos pend
      have e1 : max pos re - pos = (if re > pos then re - pos else 0) := by split <;> omega
      rw [e1, List.drop_append_of_le_length hcp]
      congr 1
      simp only [List.length_append]; split <;> omega
    obtain ⟨h1, h2, h3⟩ := loopR_spec chunk tail pos rs hwf (if re > pos then re - pos else 0) (if re > pos then re else pos) re hpos0 hcp
      (by split <;> omega)
    rw [hlhs, h1]
    generalize hres : loopR chunk (pos + chunk.length) rs (if re > pos then re - pos else 0) (if re > pos then re else pos) re = res at *
    obtain ⟨o, ⟨p', rs', re'⟩, oc⟩ := res
    cases oc with
    | none =>
      simp only [afterLoop]
      refine ⟨trivial, fun r hr => hwf r (h3 r hr), ?_⟩
      -- returned early: the loop left `pos = endPos`
      have : p' = pos + chunk.length := by
        have := loopR_early chunk (pos + chunk.length) rs _ _ _ (by rw [hres])
        rw [hres] at this; exact this
      exact this
    | some cp' =>
      simp only [afterLoop, List.append_assoc]
      have hre' : re' ≤ pos + chunk.length := h2 cp' rfl
      refine ⟨?_, fun r hr => hwf r (h3 r hr), trivial⟩
      congr 2
      unfold ppos pend
      have : max (pos + chunk.length) re' - (pos + chunk.length) = 0 := by omega
      rw [this]; simp

/-- for ANY chunking of the inner text the text-only callback produces the `source()` splice -/
theorem streamR_spec : ∀ (chunks : List Text) (pos re : Nat) (rs : List Repl), (∀ r ∈ rs, r.start ≤ r.stop) →
    streamR (pos, rs, re) chunks = specGo (ppos pos re chunks.flatten) (pend pos re chunks.flatten) rs := by
  intro chunks
  induction chunks with
  | nil =>
    intro pos re rs _
    simp only [streamR, List.flatten_nil, pend, List.drop_nil]
    rw [specGo_nil_rest]
  | cons c cs ih =>
    intro pos re rs hwf
    obtain ⟨h1, h2, h3⟩ := stepR_spec c cs.flatten pos re rs hwf
    simp only [streamR, List.flatten_cons]
    rw [h1]
    congr 1
    have := ih (stepR (pos, rs, re) c).2.1 (stepR (pos, rs, re) c).2.2.2 (stepR (pos, rs, re) c).2.2.1 h2
    rw [← this]

theorem streamR_source (chunks : List Text) (rs : List Repl) (hwf : ∀ r ∈ rs, r.start ≤ r.stop) :
    streamR (0, rs, 0) chunks = specGo 0 chunks.flatten rs := by
  rw [streamR_spec chunks 0 0 rs hwf]
  simp [ppos, pend]

end Rs

namespace Rs

/-! ## the full callback model produces exactly the text of `loopR` / `stepR` / `streamR` -/

theorem emitContent_spec (gc : Nat) (orig : Option Orig) : ∀ (lines : List Text) (nameIdx : Option Nat) (st : RSt) (line : Int),
    evsText (emitContent gc orig lines nameIdx st line).2.1 = lines.flatten
    ∧ (emitContent gc orig lines nameIdx st line).1.pos = st.pos
    ∧ (emitContent gc orig lines nameIdx st line).1.re = st.re
    ∧ (emitContent gc orig lines nameIdx st line).1.rest = st.rest := by
  intro lines
  induction lines with
  | nil => intro n st line; exact ⟨rfl, rfl, rfl, rfl⟩
  | cons cl cls ih =>
    intro n st line
    simp only [emitContent]
    by_cases hc : (cls.isEmpty && !endsWithNL cl) = true
    · simp only [hc, if_true]
      split
      all_goals
        refine ⟨?_, ?_, ?_, ?_⟩
        · rw [evsText_cons, (ih none _ line).1]; simp [Ev.text]
        · rw [(ih none _ line).2.1]
        · rw [(ih none _ line).2.2.1]
        · rw [(ih none _ line).2.2.2]
    · simp only [hc, Bool.false_eq_true, if_false]
      refine ⟨?_, ?_, ?_, ?_⟩
      · rw [evsText_cons, (ih none _ (line + 1)).1]; simp [Ev.text]
      · rw [(ih none _ (line + 1)).2.1]
      · rw [(ih none _ (line + 1)).2.2.1]
      · rw [(ih none _ (line + 1)).2.2.2]

theorem rBefore_spec (chunk : Text) (line : Int) (r : Repl) (st : RSt) (l : LSt) :
    evsText (rBefore chunk line r st l).2.2 = (if r.start > st.pos then (chunk.drop l.chunkPos).take (r.start - st.pos) else [])
    ∧ (rBefore chunk line r st l).1.pos = (if r.start > st.pos then r.start else st.pos)
    ∧ (rBefore chunk line r st l).2.1.chunkPos = (if r.start > st.pos then l.chunkPos + (r.start - st.pos) else l.chunkPos)
    ∧ (rBefore chunk line r st l).1.re = st.re := by
  unfold rBefore
  split
  · refine ⟨?_, rfl, rfl, rfl⟩
    simp [evsText_singleton, Ev.text, bsub]
  · exact ⟨rfl, rfl, rfl, rfl⟩

theorem rName_spec (r : Repl) (st : RSt) (l : LSt) :
    evsText (rName r st l).2.1 = [] ∧ (rName r st l).1.pos = st.pos ∧ (rName r st l).1.re = st.re := by
  unfold rName
  split
  · refine ⟨?_, rfl, rfl⟩
    unfold globalName; split <;> simp [evsText, Ev.text]
  · exact ⟨rfl, rfl, rfl⟩

theorem skipWhole_spec (st : RSt) (chunk : Text) (gl gc remain endPos : Nat) :
    (skipWhole st chunk gl gc remain endPos).pos = endPos ∧ (skipWhole st chunk gl gc remain endPos).re = st.re
    ∧ (skipWhole st chunk gl gc remain endPos).rest = st.rest := by
  unfold skipWhole
  simp only
  split
  · split <;> exact ⟨rfl, rfl, rfl⟩
  · split <;> exact ⟨rfl, rfl, rfl⟩

theorem colShift_spec (st : RSt) (line by_ : Int) :
    (colShift st line by_).pos = st.pos ∧ (colShift st line by_).re = st.re ∧ (colShift st line by_).rest = st.rest := by
  unfold colShift; split <;> exact ⟨rfl, rfl, rfl⟩

/-- what one iteration of the text-only loop does (the body of `loopR` for a replacement inside the chunk) -/
structure IterOut where
  text : Text
  pos : Nat
  re : Nat
  /-- `none` = returned early -/
  cp : Option Nat

def iterR (chunk : Text) (endPos : Nat) (r : Repl) (cp pos re : Nat) : IterOut :=
  let piece := if r.start > pos then (chunk.drop cp).take (r.start - pos) else []
  let cp1 := if r.start > pos then cp + (r.start - pos) else cp
  let pos1 := if r.start > pos then r.start else pos
  let re1 := max re r.stop
  if re1 > pos1 then
    if re1 ≥ endPos then ⟨piece ++ r.content, endPos, re1, none⟩
    else ⟨piece ++ r.content, re1, re1, some (cp1 + (re1 - pos1))⟩
  else ⟨piece ++ r.content, pos1, re1, some cp1⟩

theorem loopR_cons (chunk : Text) (endPos : Nat) (r : Repl) (rs : List Repl) (cp pos re : Nat) (h : r.start < endPos) :
    loopR chunk endPos (r :: rs) cp pos re =
      match (iterR chunk endPos r cp pos re).cp with
      | none => ((iterR chunk endPos r cp pos re).text, ((iterR chunk endPos r cp pos re).pos, rs, (iterR chunk endPos r cp pos re).re), none)
      | some cp' =>
        ((iterR chunk endPos r cp pos re).text ++ (loopR chunk endPos rs cp' (iterR chunk endPos r cp pos re).pos (iterR chunk endPos r cp pos re).re).1,
         (loopR chunk endPos rs cp' (iterR chunk endPos r cp pos re).pos (iterR chunk endPos r cp pos re).re).2) := by
  rw [loopR]
  simp only [h, if_true, iterR]
  by_cases h1 : max re r.stop > (if r.start > pos then r.start else pos)
  · by_cases h2 : max re r.stop ≥ endPos
    · simp only [h1, h2, if_true]
    · simp only [h1, h2, if_true, if_false]
  · simp only [h1, if_false]

/-- one iteration of the full model against one iteration of the text-only loop -/
theorem rIter_sim (chunk : Text) (gl cs : Nat) (r : Repl) (rs : List Repl) (st : RSt) (l : LSt) (hpos : st.pos = cs + l.chunkPos) :
    evsText (rIter chunk gl (cs + chunk.length) r rs st l).1 = (iterR chunk (cs + chunk.length) r l.chunkPos st.pos (reOf st)).text
    ∧ (match (rIter chunk gl (cs + chunk.length) r rs st l).2 with
       | .done st' => (iterR chunk (cs + chunk.length) r l.chunkPos st.pos (reOf st)).cp = none
            ∧ st'.pos = (iterR chunk (cs + chunk.length) r l.chunkPos st.pos (reOf st)).pos ∧ st'.rest = rs
            ∧ reOf st' = (iterR chunk (cs + chunk.length) r l.chunkPos st.pos (reOf st)).re
       | .cont st' l' => (iterR chunk (cs + chunk.length) r l.chunkPos st.pos (reOf st)).cp = some l'.chunkPos
            ∧ st'.pos = (iterR chunk (cs + chunk.length) r l.chunkPos st.pos (reOf st)).pos
            ∧ reOf st' = (iterR chunk (cs + chunk.length) r l.chunkPos st.pos (reOf st)).re
            ∧ st'.pos = cs + l'.chunkPos) := by
  obtain ⟨b1, b2, b3, b4⟩ := rBefore_spec chunk ((gl : Int) + st.lineOff) r st l
  unfold rIter
  simp only
  generalize hb : rBefore chunk ((gl : Int) + st.lineOff) r st l = b at *
  obtain ⟨n1, n2, n3⟩ := rName_spec r b.1 b.2.1
  generalize hn : rName r b.1 b.2.1 = n at *
  obtain ⟨c1, c2, c3, c4⟩ := emitContent_spec b.2.1.gc b.2.1.orig (splitLines r.content) n.2.2 n.1 ((gl : Int) + st.lineOff)
  generalize hc : emitContent b.2.1.gc b.2.1.orig (splitLines r.content) n.2.2 n.1 ((gl : Int) + st.lineOff) = c at *
  have hre : reOf c.1 = reOf st := by simp [reOf, c3, n3, b4]
  have hcpos : c.1.pos = (if r.start > st.pos then r.start else st.pos) := by rw [c2, n2, b2]
  have htxt : evsText (b.2.2 ++ n.2.1 ++ c.2.1) = (if r.start > st.pos then (chunk.drop l.chunkPos).take (r.start - st.pos) else []) ++ r.content := by
    simp only [evsText_append, b1, n1, c1, splitLines_join, List.append_nil]
  rw [hre]
  -- abbreviations for the two numbers the branches depend on
  generalize hP : (if r.start > st.pos then r.start else st.pos) = pos1 at *
  generalize hR : max (reOf st) r.stop = re1 at *
  have hcp1 : b.2.1.chunkPos = (if r.start > st.pos then l.chunkPos + (r.start - st.pos) else l.chunkPos) := b3
  have hinv1 : pos1 = cs + b.2.1.chunkPos := by rw [hcp1, ← hP]; split <;> omega
  have hoff : ((chunk.length : Int) - ((cs + chunk.length : Nat) : Int) + (re1 : Int) - (b.2.1.chunkPos : Int)) = (re1 : Int) - (pos1 : Int) := by
    rw [hinv1]; push_cast; omega
  rw [hoff]
  unfold iterR
  simp only [hP, hR]
  by_cases hsk : re1 > pos1
  · have hpos' : ((re1 : Int) - (pos1 : Int)) > 0 := by omega
    simp only [hpos', hsk, if_true]
    by_cases hend : re1 ≥ cs + chunk.length
    · simp only [hend, if_true]
      obtain ⟨s1, s2, s3⟩ := skipWhole_spec { c.1 with re := some re1, rest := rs } chunk gl b.2.1.gc (chunk.length - b.2.1.chunkPos) (cs + chunk.length)
      exact ⟨htxt, trivial, s1, s3, by simp [reOf, s2]⟩
    · simp only [hend, if_false]
      have htoNat : ((re1 : Int) - (pos1 : Int)).toNat = re1 - pos1 := by omega
      obtain ⟨k1, k2, k3⟩ := colShift_spec { c.1 with re := some re1, rest := rs, pos := c.1.pos + ((re1 : Int) - (pos1 : Int)).toNat }
        ((gl : Int) + c.1.lineOff) ((re1 : Int) - (pos1 : Int))
      refine ⟨htxt, ?_, ?_, ?_, ?_⟩
      · simp only [htoNat, hcp1]
      · rw [k1]; simp only [htoNat, hcpos]; omega
      · unfold reOf; rw [k2]; rfl
      · rw [k1]; simp only [htoNat, hcpos]; omega
  · have hpos' : ¬ ((re1 : Int) - (pos1 : Int)) > 0 := by omega
    simp only [hpos', hsk, if_false]
    exact ⟨htxt, by rw [hcp1], hcpos, rfl, by rw [hcpos]; exact hinv1⟩

/-- the loop of the full model and the text-only loop agree -/
theorem rLoop_sim (chunk : Text) (gl cs : Nat) : ∀ (rs : List Repl) (st : RSt) (l : LSt), st.pos = cs + l.chunkPos →
    evsText (rLoop chunk gl (cs + chunk.length) rs st l).2.1 = (loopR chunk (cs + chunk.length) rs l.chunkPos st.pos (reOf st)).1
    ∧ (rLoop chunk gl (cs + chunk.length) rs st l).1.pos = (loopR chunk (cs + chunk.length) rs l.chunkPos st.pos (reOf st)).2.1.1
    ∧ (rLoop chunk gl (cs + chunk.length) rs st l).1.rest = (loopR chunk (cs + chunk.length) rs l.chunkPos st.pos (reOf st)).2.1.2.1
    ∧ reOf (rLoop chunk gl (cs + chunk.length) rs st l).1 = (loopR chunk (cs + chunk.length) rs l.chunkPos st.pos (reOf st)).2.1.2.2
    ∧ (rLoop chunk gl (cs + chunk.length) rs st l).2.2.map (·.chunkPos) = (loopR chunk (cs + chunk.length) rs l.chunkPos st.pos (reOf st)).2.2 := by
  intro rs
  induction rs with
  | nil => intro st l _; simp [rLoop, loopR, evsText_nil, reOf]
  | cons r rs ih =>
    intro st l hpos
    by_cases hlt : r.start < cs + chunk.length
    · rw [loopR_cons chunk _ r rs _ _ _ hlt]
      unfold rLoop
      simp only [hlt, if_true]
      obtain ⟨t1, t2⟩ := rIter_sim chunk gl cs r rs st l hpos
      generalize rIter chunk gl (cs + chunk.length) r rs st l = it at *
      obtain ⟨evs, nx⟩ := it
      cases nx with
      | done st' =>
        obtain ⟨h1, h2, h3, h4⟩ := t2
        simp only [h1]
        exact ⟨t1, h2, h3, h4, rfl⟩
      | cont st' l' =>
        obtain ⟨h1, h2, h3, h4⟩ := t2
        simp only [h1]
        obtain ⟨i1, i2, i3, i4, i5⟩ := ih st' l' h4
        rw [h2, h3] at i1 i2 i3 i4 i5
        exact ⟨by rw [evsText_append, t1, i1], i2, i3, i4, i5⟩
    · unfold rLoop loopR
      simp [hlt, evsText_nil, reOf]

/-- `on_chunk` of the full model against the text-only step -/
theorem rOnChunk_sim (st : RSt) (chunk : Text) (m : Mapping) :
    evsText (rOnChunk st chunk m).2 = (stepR (st.pos, st.rest, reOf st) chunk).1
    ∧ (rOnChunk st chunk m).1.pos = (stepR (st.pos, st.rest, reOf st) chunk).2.1
    ∧ (rOnChunk st chunk m).1.rest = (stepR (st.pos, st.rest, reOf st) chunk).2.2.1
    ∧ reOf (rOnChunk st chunk m).1 = (stepR (st.pos, st.rest, reOf st) chunk).2.2.2 := by
  -- what happens after the starting point has been fixed
  have after : ∀ (st1 : RSt) (l1 : LSt), st1.pos = st.pos + l1.chunkPos →
      evsText (match rLoop chunk m.gl (st.pos + chunk.length) st1.rest st1 l1 with
        | (st2, evs, none) => (st2, evs)
        | (st2, evs, some l2) =>
          ({ st2 with pos := st.pos + chunk.length },
            evs ++ (if l2.chunkPos < chunk.length then
              [Ev.chunk (some (chunk.drop l2.chunkPos)) ⟨u32 ((m.gl : Int) + st2.lineOff), gcolOf st2 ((m.gl : Int) + st2.lineOff) l2.gc, mapName st2.nim l2.orig⟩]
              else []))).2
        = (match loopR chunk (st.pos + chunk.length) st1.rest l1.chunkPos st1.pos (reOf st1) with
            | (o, s, none) => (o, s)
            | (o, (_, rs', re'), some cp) => (o ++ chunk.drop cp, (st.pos + chunk.length, rs', re'))).1
      ∧ (match rLoop chunk m.gl (st.pos + chunk.length) st1.rest st1 l1 with
        | (st2, evs, none) => (st2, evs)
        | (st2, evs, some l2) =>
          ({ st2 with pos := st.pos + chunk.length },
            evs ++ (if l2.chunkPos < chunk.length then
              [Ev.chunk (some (chunk.drop l2.chunkPos)) ⟨u32 ((m.gl : Int) + st2.lineOff), gcolOf st2 ((m.gl : Int) + st2.lineOff) l2.gc, mapName st2.nim l2.orig⟩]
              else []))).1.pos
        = (match loopR chunk (st.pos + chunk.length) st1.rest l1.chunkPos st1.pos (reOf st1) with
            | (o, s, none) => (o, s)
            | (o, (_, rs', re'), some cp) => (o ++ chunk.drop cp, (st.pos + chunk.length, rs', re'))).2.1
      ∧ (match rLoop chunk m.gl (st.pos + chunk.length) st1.rest st1 l1 with
        | (st2, evs, none) => (st2, evs)
        | (st2, evs, some l2) =>
          ({ st2 with pos := st.pos + chunk.length },
            evs ++ (if l2.chunkPos < chunk.length then
              [Ev.chunk (some (chunk.drop l2.chunkPos)) ⟨u32 ((m.gl : Int) + st2.lineOff), gcolOf st2 ((m.gl : Int) + st2.lineOff) l2.gc, mapName st2.nim l2.orig⟩]
              else []))).1.rest
        = (match loopR chunk (st.pos + chunk.length) st1.rest l1.chunkPos st1.pos (reOf st1) with
            | (o, s, none) => (o, s)
            | (o, (_, rs', re'), some cp) => (o ++ chunk.drop cp, (st.pos + chunk.length, rs', re'))).2.2.1
      ∧ reOf (match rLoop chunk m.gl (st.pos + chunk.length) st1.rest st1 l1 with
        | (st2, evs, none) => (st2, evs)
        | (st2, evs, some l2) =>
          ({ st2 with pos := st.pos + chunk.length },
            evs ++ (if l2.chunkPos < chunk.length then
              [Ev.chunk (some (chunk.drop l2.chunkPos)) ⟨u32 ((m.gl : Int) + st2.lineOff), gcolOf st2 ((m.gl : Int) + st2.lineOff) l2.gc, mapName st2.nim l2.orig⟩]
              else []))).1
        = (match loopR chunk (st.pos + chunk.length) st1.rest l1.chunkPos st1.pos (reOf st1) with
            | (o, s, none) => (o, s)
            | (o, (_, rs', re'), some cp) => (o ++ chunk.drop cp, (st.pos + chunk.length, rs', re'))).2.2.2 := by
    intro st1 l1 hpos
    obtain ⟨q1, q2, q3, q4, q5⟩ := rLoop_sim chunk m.gl st.pos st1.rest st1 l1 hpos
    generalize rLoop chunk m.gl (st.pos + chunk.length) st1.rest st1 l1 = R at *
    generalize loopR chunk (st.pos + chunk.length) st1.rest l1.chunkPos st1.pos (reOf st1) = L at *
    obtain ⟨st2, evs, ol⟩ := R
    obtain ⟨o, ⟨p', rs', re'⟩, ocp⟩ := L
    simp only at q1 q2 q3 q4 q5
    cases ol with
    | none =>
      simp only [Option.map_none] at q5
      subst q5
      exact ⟨q1, q2, q3, q4⟩
    | some l2 =>
      simp only [Option.map_some] at q5
      subst q5
      refine ⟨?_, rfl, q3, q4⟩
      simp only [evsText_append, q1]
      congr 1
      split
      · simp [evsText_singleton, Ev.text]
      · simp only [evsText_nil]
        exact (List.drop_eq_nil_of_le (by omega)).symm
  unfold rOnChunk stepR
  simp only
  cases hre : st.re with
  | none =>
    have h0 : reOf st = 0 := by simp [reOf, hre]
    have hn : ¬ (reOf st > st.pos ∧ reOf st ≥ st.pos + chunk.length) := by omega
    have hn' : ¬ (reOf st > st.pos) := by omega
    simp only [hn, hn', if_false]
    exact after st { chunkPos := 0, gc := m.gc, orig := m.orig } (by simp)
  | some e =>
    have h0 : reOf st = e := by simp [reOf, hre]
    rw [h0]
    by_cases h1 : e > st.pos
    · simp only [h1, if_true]
      by_cases h2 : e ≥ st.pos + chunk.length
      · simp only [h2, if_true, and_self, evsText_nil]
        obtain ⟨s1, s2, s3⟩ := skipWhole_spec st chunk m.gl m.gc chunk.length (st.pos + chunk.length)
        exact ⟨trivial, s1, s3, by simp [reOf, s2, hre]⟩
      · simp only [h2, if_false, and_false]
        obtain ⟨k1, k2, k3⟩ := colShift_spec { st with pos := st.pos + (e - st.pos) } ((m.gl : Int) + st.lineOff) ((e - st.pos : Nat) : Int)
        have a := after (colShift { st with pos := st.pos + (e - st.pos) } ((m.gl : Int) + st.lineOff) ((e - st.pos : Nat) : Int))
          { chunkPos := e - st.pos, gc := m.gc + (e - st.pos),
            orig := advOrig st.contents m.orig (bsub chunk 0 (e - st.pos)) (e - st.pos) } (by rw [k1])
        have hr : reOf (colShift { st with pos := st.pos + (e - st.pos) } ((m.gl : Int) + st.lineOff) ((e - st.pos : Nat) : Int)) = e := by
          unfold reOf; rw [k2]; simp [hre]
        have hp : (colShift { st with pos := st.pos + (e - st.pos) } ((m.gl : Int) + st.lineOff) ((e - st.pos : Nat) : Int)).pos = e := by
          rw [k1]; simp only; omega
        rw [k3, hr, hp] at a
        simp only [hre] at a k3
        rw [k3]
        exact a
    · simp only [h1, if_false, false_and]
      have a := after st { chunkPos := 0, gc := m.gc, orig := m.orig } (by simp)
      rw [h0] at a
      exact a

/-- the texts of the chunk events -/
def chunkTexts : List Ev → List Text
  | [] => []
  | .chunk t _ :: es => t.getD [] :: chunkTexts es
  | _ :: es => chunkTexts es

theorem chunkTexts_flatten (evs : List Ev) : (chunkTexts evs).flatten = evsText evs := by
  induction evs with
  | nil => rfl
  | cons e es ih =>
    cases e with
    | chunk t m => cases t <;> simp [chunkTexts, evsText_cons, Ev.text, ih]
    | source i s c => simp [chunkTexts, evsText_cons, Ev.text, ih]
    | name i n => simp [chunkTexts, evsText_cons, Ev.text, ih]

theorem rEvs_sim : ∀ (evs : List Ev) (st : RSt),
    evsText (rEvs st evs).2 ++ ((rEvs st evs).1.rest.map (·.content)).flatten
      = streamR (st.pos, st.rest, reOf st) (chunkTexts evs) := by
  intro evs
  induction evs with
  | nil => intro st; simp [rEvs, streamR, chunkTexts, evsText_nil]
  | cons e es ih =>
    intro st
    unfold rEvs
    simp only [evsText_append, List.append_assoc]
    rw [ih]
    cases e with
    | chunk t m =>
      obtain ⟨o1, o2, o3, o4⟩ := rOnChunk_sim st (t.getD []) m
      simp only [rEv, chunkTexts, streamR, o1, o2, o3, o4]
    | source i s c => simp [rEv, chunkTexts, evsText_singleton, Ev.text, reOf]
    | name i n =>
      simp only [rEv, chunkTexts]
      unfold globalName
      split <;> simp [evsText, Ev.text, reOf]

theorem rRemainder_text (gcInfo : Nat) : ∀ (cls : List Text) (st : RSt) (line : Int),
    evsText (rRemainder gcInfo cls st line).2.1 = cls.flatten := by
  intro cls
  induction cls with
  | nil => intro st line; rfl
  | cons cl cls ih =>
    intro st line
    unfold rRemainder
    simp only [evsText_cons, Ev.text, List.flatten_cons, ih]

/-- **ReplaceSource streaming emits exactly the replaced text**: whatever the inner stream's chunking and
mappings, the concatenated chunk texts of `replaceStream` are `specGo` applied to the inner text. -/
theorem replaceStream_text (sorted : List Repl) (inner : SResult) (hwf : ∀ r ∈ sorted, r.start ≤ r.stop) :
    evsText (replaceStream sorted inner).evs = specGo 0 (evsText inner.evs) sorted := by
  unfold replaceStream
  simp only [evsText_append, rRemainder_text, splitLines_join]
  have h := rEvs_sim inner.evs { rest := sorted }
  simp only [reOf, Option.getD_none] at h
  rw [h, streamR_source _ _ hwf, chunkTexts_flatten]

end Rs
