import RsModel.Lemmas.Lines
import RsModel.Model.Tree
/-! # text projection of the composites: Concat, Combined -/
namespace Rs

/-! ## ConcatSource -/

theorem globalSource_notext (sm : Assoc) (s : Text) (c : Option Text) : evsText (globalSource sm s c).2.1 = [] := by
  unfold globalSource; split <;> simp [evsText, Ev.text]

theorem globalName_notext (nm : Assoc) (n : Text) : evsText (globalName nm n).2.1 = [] := by
  unfold globalName; split <;> simp [evsText, Ev.text]

theorem concatEv_text (st : CSt) (e : Ev) : evsText (concatEv false st e).2 = e.text := by
  cases e with
  | chunk text m =>
    simp only [concatEv, evsText_append]
    have h1 : evsText (if (st.needClose && (m.gl != 1 || m.gc != 0)) = true then [Ev.chunk none ⟨st.lineOff + 1, st.colOff, none⟩] else []) = [] := by
      split <;> simp [evsText, Ev.text]
    rw [h1]
    split <;> cases text <;> simp [evsText, Ev.text]
  | source i s c =>
    simp only [concatEv]
    exact globalSource_notext _ _ _
  | name i n =>
    simp only [concatEv]
    exact globalName_notext _ _

theorem concatEvs_text : ∀ (evs : List Ev) (st : CSt), evsText (concatEvs false st evs).2 = evsText evs := by
  intro evs
  induction evs with
  | nil => intro st; rfl
  | cons e es ih =>
    intro st
    simp only [concatEvs, evsText_append, concatEv_text, ih, evsText_cons]

theorem concatChild_text (st : CSt) (child : SResult) : evsText (concatChild false st child).2 = evsText child.evs := by
  simp only [concatChild, evsText_append, concatEvs_text]
  split <;> simp [evsText, Ev.text]

theorem concatGo_text : ∀ (children : List SResult) (st : CSt),
    evsText (concatGo false st children).2 = (children.map fun c => evsText c.evs).flatten := by
  intro children
  induction children with
  | nil => intro st; rfl
  | cons c cs ih => intro st; simp only [concatGo, evsText_append, concatChild_text, ih, List.map_cons, List.flatten_cons]

/-- a ConcatSource streams the concatenation of what its children stream -/
theorem concatStream_text (children : List SResult) :
    evsText (concatStream false children).evs = (children.map fun c => evsText c.evs).flatten := by
  simp [concatStream, concatGo_text]

/-! ## combined source map: the outer stream's chunk texts pass through unchanged -/

theorem chunk_text_cases (chunk : Option Text) (m m' : Mapping) : (Ev.chunk chunk m').text = (Ev.chunk chunk m).text := by
  cases chunk <;> rfl

theorem combPass_text (st : CombSt) (chunk : Option Text) (m : Mapping) (a b c d : Int) :
    evsText (combPass st chunk m a b c d).2 = (Ev.chunk chunk m).text := by
  unfold combPass
  by_cases h1 : (if a < 0 then (-1 : Int) else (st.sourceIndexMapping[a.toNat]?).getD (-1)) < 0
  · simp only [h1, if_true, evsText_singleton]; exact chunk_text_cases _ _ _
  · simp only [h1, if_false]
    by_cases h2 : ((if d ≥ 0 then (st.nameIndexMapping[d.toNat]?).getD (-1) else (-1 : Int)) == -2) = true
    · simp only [h2, if_true, evsText_append, globalName_notext, evsText_singleton, List.nil_append]; exact chunk_text_cases _ _ _
    · simp only [h2, Bool.false_eq_true, if_false, evsText_singleton]; exact chunk_text_cases _ _ _

theorem combNoInner_text (cfg : CombCfg) (st : CombSt) (chunk : Option Text) (m : Mapping) (a b c d : Int) :
    evsText (combNoInner cfg st chunk m a b c d).2 = (Ev.chunk chunk m).text := by
  unfold combNoInner
  by_cases h1 : cfg.remove = true
  · simp only [h1, if_true, evsText_singleton]; exact chunk_text_cases _ _ _
  · simp only [h1, Bool.false_eq_true, if_false]
    by_cases h2 : (st.sourceIndexMapping[a.toNat]? == some (-2)) = true
    · simp only [h2, if_true]
      cases st.sourceMapping.get? cfg.innerName with
      | some g => exact combPass_text _ _ _ _ _ _ _
      | none => simp only [evsText_cons, combPass_text]; simp [Ev.text]
    · simp only [h2, Bool.false_eq_true, if_false]; exact combPass_text _ _ _ _ _ _ _

theorem combSrcResolve_notext (st : CombSt) (isi : Nat) : evsText (combSrcResolve st isi).2.1 = [] := by
  unfold combSrcResolve
  simp only
  split
  · exact globalSource_notext _ _ _
  · rfl

theorem combNameResolve_notext (st : CombSt) (isi : Nat) (seg : InnerSeg) (a b c : Int) :
    evsText (combNameResolve st isi seg a b c).2.1 = [] := by
  unfold combNameResolve
  simp only
  repeat' split
  all_goals first | exact globalName_notext _ _ | rfl

theorem combFound_text (st : CombSt) (chunk : Option Text) (m : Mapping) (seg : InnerSeg) (ic : Text) (a b : Int) :
    evsText (combFound st chunk m seg ic a b).2 = (Ev.chunk chunk m).text := by
  unfold combFound
  simp only [evsText_append, combSrcResolve_notext, combNameResolve_notext, evsText_singleton, List.nil_append]
  exact chunk_text_cases _ _ _

theorem combOnChunk_text (cfg : CombCfg) (st : CombSt) (chunk : Option Text) (m : Mapping) :
    evsText (combOnChunk cfg st chunk m).2 = (Ev.chunk chunk m).text := by
  unfold combOnChunk
  simp only
  repeat' split
  all_goals first | exact combNoInner_text _ _ _ _ _ _ _ _ | exact combFound_text _ _ _ _ _ _ _ | exact combPass_text _ _ _ _ _ _ _

theorem combStep_text (cfg : CombCfg) (st : CombSt) (e : Ev) : evsText (combStep cfg st e).2 = e.text := by
  cases e with
  | chunk t m => exact combOnChunk_text cfg st t m
  | source i s c =>
    simp only [combStep, combOnSource]
    split
    · rfl
    · exact globalSource_notext _ _ _
  | name i n => rfl

theorem combFold_text (cfg : CombCfg) : ∀ (evs : List Ev) (st : CombSt), evsText (combFold cfg st evs) = evsText evs := by
  intro evs
  induction evs with
  | nil => intro st; rfl
  | cons e es ih => intro st; simp only [combFold, evsText_append, combStep_text, ih, evsText_cons]

/-- a SourceMapSource with inner map streams exactly the text its outer map-driven stream delivers -/
theorem streamCombined_text (t : Text) (sm : SMap) (n : Text) (os : Option Text) (im : SMap) (rm : Bool) (o : Opts) :
    evsText (streamCombined t sm n os im rm o).evs = evsText (streamSM t sm o).evs := by
  simp [streamCombined, combFold_text]

end Rs
