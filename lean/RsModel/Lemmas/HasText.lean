import RsModel.Model.Tree
/-!
# C01, second clause: with `final_source = false` every delivered chunk carries its text

`evsTL evs` = "some event of `evs` is a chunk without text".  It is `false` for every stream of every tree — no
well-formedness assumption at all.
-/
namespace Rs

def evsTL (evs : List Ev) : Bool := evs.any Ev.textless

@[simp] theorem evsTL_nil : evsTL [] = false := rfl
@[simp] theorem evsTL_cons (e : Ev) (es : List Ev) : evsTL (e :: es) = (e.textless || evsTL es) := by simp [evsTL]
@[simp] theorem evsTL_append (a b : List Ev) : evsTL (a ++ b) = (evsTL a || evsTL b) := by simp [evsTL]
@[simp] theorem tl_some (t : Text) (m : Mapping) : (Ev.chunk (some t) m).textless = false := rfl
@[simp] theorem tl_source (i : Nat) (s : Text) (c : Option Text) : (Ev.source i s c).textless = false := rfl
@[simp] theorem tl_name (i : Nat) (n : Text) : (Ev.name i n).textless = false := rfl
theorem tl_chunk (t : Option Text) (m m' : Mapping) : (Ev.chunk t m).textless = (Ev.chunk t m').textless := by cases t <;> rfl

theorem evsTL_false_iff (evs : List Ev) : evsTL evs = false ↔ ∀ e ∈ evs, e.textless = false := by
  simp [evsTL]

/-! ## leaves -/
theorem rawChunks_tl : ∀ (ls : List Text) (l : Nat), evsTL (rawChunks l ls) = false := by
  intro ls; induction ls with
  | nil => intro l; rfl
  | cons t ts ih => intro l; simp [rawChunks, ih]

theorem streamRaw_tl (t : Text) (c : Bool) : evsTL (streamRaw t ⟨c, false⟩).evs = false := by
  simp [streamRaw, rawChunks_tl]

theorem origLineChunks_tl : ∀ (ls : List Text) (l : Nat), evsTL (origLineChunks l ls) = false := by
  intro ls; induction ls with
  | nil => intro l; rfl
  | cons t ts ih => intro l; simp [origLineChunks, ih]

theorem origTokChunks_tl : ∀ (toks : List Text) (l c : Nat), evsTL (origTokChunks false l c toks).1 = false := by
  intro toks; induction toks with
  | nil => intro l c; rfl
  | cons t ts ih =>
    intro l c
    simp only [origTokChunks, evsTL_append]
    have h1 : evsTL (if (endsWithNL t && t.length == 1) = true then
        (if false = true then [] else [Ev.chunk (some t) ⟨l, c, none⟩])
        else [Ev.chunk (if false = true then none else some t) ⟨l, c, some ⟨0, l, c, none⟩⟩]) = false := by
      split <;> simp
    rw [h1]
    split <;> simp [ih]

theorem streamOriginal_tl (t name : Text) (c : Bool) : evsTL (streamOriginal t name ⟨c, false⟩).evs = false := by
  cases c
  · simp [streamOriginal, origLineChunks_tl]
  · simp [streamOriginal, origTokChunks_tl]

theorem smSourceEvs_tl (m : SMap) : evsTL (smSourceEvs m) = false := by
  rw [evsTL_false_iff]; intro e he
  simp only [smSourceEvs, List.mem_map] at he
  obtain ⟨i, _, rfl⟩ := he; rfl

theorem smNameEvs_tl (m : SMap) : evsTL (smNameEvs m) = false := by
  rw [evsTL_false_iff]; intro e he
  simp only [smNameEvs, List.mem_map] at he
  obtain ⟨i, _, rfl⟩ := he; rfl

theorem smWholeLines_tl (lines : List Text) (a b : Nat) : evsTL (smWholeLines lines a b) = false := by
  rw [evsTL_false_iff]; intro e he
  simp only [smWholeLines, List.mem_flatten, List.mem_map] at he
  obtain ⟨l, ⟨k, _, rfl⟩, hl⟩ := he
  split at hl
  · simp only [List.mem_singleton] at hl; subst hl; rfl
  · simp at hl

theorem smFullStep_tl (lines : List Text) (fl fc : Nat) (s : FullSt) (m : Mapping) :
    evsTL (smFullStep lines fl fc s m).2 = false := by
  unfold smFullStep
  split
  · rfl
  · simp only [evsTL_append, smWholeLines_tl, Bool.or_false]
    have h1 : evsTL (smStep1 lines s m).2 = false := by
      unfold smStep1; repeat' split
      all_goals simp
      all_goals (split <;> simp)
    have h2 : ∀ s1, evsTL (smStep2 lines s1 m).2 = false := by
      intro s1; unfold smStep2; repeat' split
      all_goals simp
    have h4 : ∀ s3, evsTL (smStep4 lines s3 m).2 = false := by
      intro s3; unfold smStep4; repeat' split
      all_goals simp
    simp [h1, h2, h4]

theorem smFullGo_tl (lines : List Text) (fl fc : Nat) : ∀ (ms : List Mapping) (s : FullSt),
    evsTL (smFullGo lines fl fc s ms) = false := by
  intro ms; induction ms with
  | nil => intro s; rfl
  | cons m ms ih => intro s; simp [smFullGo, smFullStep_tl, ih]

theorem smLinesFullGo_tl (lines : List Text) : ∀ (ms : List Mapping) (cur : Nat),
    evsTL (smLinesFullGo lines cur ms).1 = false := by
  intro ms; induction ms with
  | nil => intro cur; rfl
  | cons m ms ih =>
    intro cur
    unfold smLinesFullGo
    split
    · exact ih _
    · split
      · exact ih _
      · simp [smWholeLines_tl, ih]

theorem streamSM_tl (t : Text) (sm : SMap) (c : Bool) : evsTL (streamSM t sm ⟨c, false⟩).evs = false := by
  cases c
  · simp only [streamSM, streamSMLinesFull]
    split
    · rfl
    · simp [smSourceEvs_tl, smLinesFullGo_tl, smWholeLines_tl]
  · simp only [streamSM, streamSMFull]
    split
    · rfl
    · simp [smSourceEvs_tl, smNameEvs_tl, smFullGo_tl]

/-! ## shared helpers -/
theorem globalSource_tl (sm : Assoc) (s : Text) (c : Option Text) : evsTL (globalSource sm s c).2.1 = false := by
  unfold globalSource; split <;> simp

theorem globalName_tl (nm : Assoc) (n : Text) : evsTL (globalName nm n).2.1 = false := by
  unfold globalName; split <;> simp

/-! ## combined: every outer chunk is passed on with the text it had -/
theorem combPass_tl (st : CombSt) (chunk : Option Text) (m : Mapping) (a b c d : Int) :
    evsTL (combPass st chunk m a b c d).2 = (Ev.chunk chunk m).textless := by
  unfold combPass
  by_cases h1 : (if a < 0 then (-1 : Int) else (st.sourceIndexMapping[a.toNat]?).getD (-1)) < 0
  · simp only [h1, if_true, evsTL_cons, evsTL_nil, Bool.or_false]; exact tl_chunk _ _ _
  · simp only [h1, if_false]
    by_cases h2 : ((if d ≥ 0 then (st.nameIndexMapping[d.toNat]?).getD (-1) else (-1 : Int)) == -2) = true
    · simp only [h2, if_true, evsTL_append, globalName_tl, evsTL_cons, evsTL_nil, Bool.or_false, Bool.false_or]; exact tl_chunk _ _ _
    · simp only [h2, Bool.false_eq_true, if_false, evsTL_cons, evsTL_nil, Bool.or_false]; exact tl_chunk _ _ _

theorem combNoInner_tl (cfg : CombCfg) (st : CombSt) (chunk : Option Text) (m : Mapping) (a b c d : Int) :
    evsTL (combNoInner cfg st chunk m a b c d).2 = (Ev.chunk chunk m).textless := by
  unfold combNoInner
  by_cases h1 : cfg.remove = true
  · simp only [h1, if_true, evsTL_cons, evsTL_nil, Bool.or_false]; exact tl_chunk _ _ _
  · simp only [h1, Bool.false_eq_true, if_false]
    by_cases h2 : (st.sourceIndexMapping[a.toNat]? == some (-2)) = true
    · simp only [h2, if_true]
      cases st.sourceMapping.get? cfg.innerName with
      | some g => exact combPass_tl _ _ _ _ _ _ _
      | none => simp only [evsTL_cons, combPass_tl]; simp
    · simp only [h2, Bool.false_eq_true, if_false]; exact combPass_tl _ _ _ _ _ _ _

theorem combSrcResolve_tl (st : CombSt) (isi : Nat) : evsTL (combSrcResolve st isi).2.1 = false := by
  unfold combSrcResolve
  simp only
  split
  · exact globalSource_tl _ _ _
  · rfl

theorem combNameResolve_tl (st : CombSt) (isi : Nat) (seg : InnerSeg) (a b c : Int) :
    evsTL (combNameResolve st isi seg a b c).2.1 = false := by
  unfold combNameResolve
  simp only
  repeat' split
  all_goals first | exact globalName_tl _ _ | rfl

theorem combFound_tl (st : CombSt) (chunk : Option Text) (m : Mapping) (seg : InnerSeg) (ic : Text) (a b : Int) :
    evsTL (combFound st chunk m seg ic a b).2 = (Ev.chunk chunk m).textless := by
  unfold combFound
  simp only [evsTL_append, combSrcResolve_tl, combNameResolve_tl, evsTL_cons, evsTL_nil, Bool.false_or, Bool.or_false]
  exact tl_chunk _ _ _

theorem combOnChunk_tl (cfg : CombCfg) (st : CombSt) (chunk : Option Text) (m : Mapping) :
    evsTL (combOnChunk cfg st chunk m).2 = (Ev.chunk chunk m).textless := by
  unfold combOnChunk
  simp only
  repeat' split
  all_goals first | exact combNoInner_tl _ _ _ _ _ _ _ _ | exact combFound_tl _ _ _ _ _ _ _ | exact combPass_tl _ _ _ _ _ _ _

theorem combStep_tl (cfg : CombCfg) (st : CombSt) (e : Ev) : evsTL (combStep cfg st e).2 = e.textless := by
  cases e with
  | chunk t m => exact combOnChunk_tl cfg st t m
  | source i s c =>
    simp only [combStep, combOnSource]
    split
    · rfl
    · exact globalSource_tl _ _ _
  | name i n => rfl

theorem combFold_tl (cfg : CombCfg) : ∀ (evs : List Ev) (st : CombSt), evsTL (combFold cfg st evs) = evsTL evs := by
  intro evs
  induction evs with
  | nil => intro st; rfl
  | cons e es ih => intro st; simp only [combFold, evsTL_append, combStep_tl, ih, evsTL_cons]

theorem streamCombined_tl (t : Text) (sm : SMap) (n : Text) (os : Option Text) (im : SMap) (rm : Bool) (c : Bool) :
    evsTL (streamCombined t sm n os im rm ⟨c, false⟩).evs = false := by
  simp [streamCombined, combFold_tl, streamSM_tl]

/-! ## concat: with `final = false` no closing (textless) chunk is ever produced -/
theorem concatEv_tl (st : CSt) (e : Ev) (h : st.needClose = false) :
    evsTL (concatEv false st e).2 = e.textless ∧ (concatEv false st e).1.needClose = false := by
  cases e with
  | chunk text m =>
    simp only [concatEv, h, Bool.false_and, Bool.false_eq_true, if_false, List.nil_append, and_true]
    split <;> cases text <;> rfl
  | source i s c => exact ⟨globalSource_tl _ _ _, h⟩
  | name i n => exact ⟨globalName_tl _ _, h⟩

theorem concatEvs_tl : ∀ (evs : List Ev) (st : CSt), st.needClose = false →
    evsTL (concatEvs false st evs).2 = evsTL evs ∧ (concatEvs false st evs).1.needClose = false := by
  intro evs
  induction evs with
  | nil => intro st h; exact ⟨rfl, h⟩
  | cons e es ih =>
    intro st h
    obtain ⟨a, b⟩ := concatEv_tl st e h
    obtain ⟨c, d⟩ := ih _ b
    simp only [concatEvs, evsTL_append, a, c, evsTL_cons]
    exact ⟨trivial, d⟩

theorem concatChild_tl (st : CSt) (child : SResult) (h : st.needClose = false) :
    evsTL (concatChild false st child).2 = evsTL child.evs ∧ (concatChild false st child).1.needClose = false := by
  obtain ⟨a, b⟩ := concatEvs_tl child.evs { st with sim := [], nim := [], lastMappingLine := 0 } h
  simp only [concatChild, evsTL_append, a, b, Bool.false_and, Bool.false_eq_true, if_false, evsTL_nil, Bool.or_false,
    Bool.or_self, and_self]

theorem concatGo_tl : ∀ (children : List SResult) (st : CSt), st.needClose = false →
    (∀ c ∈ children, evsTL c.evs = false) → evsTL (concatGo false st children).2 = false := by
  intro children
  induction children with
  | nil => intro st _ _; rfl
  | cons c cs ih =>
    intro st h hc
    obtain ⟨a, b⟩ := concatChild_tl st c h
    simp only [concatGo, evsTL_append, a, hc c (by simp), ih _ b (fun x hx => hc x (by simp [hx])), Bool.or_self]

theorem concatStream_tl (children : List SResult) (hc : ∀ c ∈ children, evsTL c.evs = false) :
    evsTL (concatStream false children).evs = false := by
  simp only [concatStream]
  exact concatGo_tl children {} rfl hc

/-! ## replace: every chunk it builds carries text, whatever the inner stream does -/
theorem emitContent_tl (gc : Nat) (orig : Option Orig) : ∀ (cls : List Text) (n : Option Nat) (st : RSt) (line : Int),
    evsTL (emitContent gc orig cls n st line).2.1 = false := by
  intro cls
  induction cls with
  | nil => intro n st line; rfl
  | cons cl cls ih => intro n st line; unfold emitContent; simp [ih]

theorem rBefore_tl (chunk : Text) (line : Int) (r : Repl) (st : RSt) (l : LSt) : evsTL (rBefore chunk line r st l).2.2 = false := by
  unfold rBefore; split <;> simp

theorem rName_tl (r : Repl) (st : RSt) (l : LSt) : evsTL (rName r st l).2.1 = false := by
  unfold rName; split
  · exact globalName_tl _ _
  · rfl

theorem rIter_tl (chunk : Text) (gl endPos : Nat) (r : Repl) (rs : List Repl) (st : RSt) (l : LSt) :
    evsTL (rIter chunk gl endPos r rs st l).1 = false := by
  unfold rIter
  simp only
  repeat' split
  all_goals simp [rBefore_tl, rName_tl, emitContent_tl]

theorem rLoop_tl (chunk : Text) (gl endPos : Nat) : ∀ (rs : List Repl) (st : RSt) (l : LSt),
    evsTL (rLoop chunk gl endPos rs st l).2.1 = false := by
  intro rs
  induction rs with
  | nil => intro st l; rfl
  | cons r rs ih =>
    intro st l
    unfold rLoop
    split
    · have h := rIter_tl chunk gl endPos r rs st l
      generalize rIter chunk gl endPos r rs st l = it at *
      obtain ⟨evs, nx⟩ := it
      cases nx with
      | done st' => exact h
      | cont st' l' => simp only [evsTL_append, ih]; simpa using h
    · rfl

theorem rOnChunk_tl (st : RSt) (chunk : Text) (m : Mapping) : evsTL (rOnChunk st chunk m).2 = false := by
  unfold rOnChunk
  simp only
  split
  · rfl
  · rename_i st1 l1 _
    have h := rLoop_tl chunk m.gl (st.pos + chunk.length) st1.rest st1 l1
    generalize rLoop chunk m.gl (st.pos + chunk.length) st1.rest st1 l1 = R at *
    obtain ⟨st2, evs, ol⟩ := R
    cases ol with
    | none => exact h
    | some l2 =>
      simp only [evsTL_append]
      simp only at h
      rw [h]
      split <;> simp

theorem rEvs_tl : ∀ (evs : List Ev) (st : RSt), evsTL (rEvs st evs).2 = false := by
  intro evs
  induction evs with
  | nil => intro st; rfl
  | cons e es ih =>
    intro st
    unfold rEvs
    simp only [evsTL_append, ih, Bool.or_false]
    cases e with
    | chunk t m => exact rOnChunk_tl _ _ _
    | source i s c => rfl
    | name i n => simp only [rEv]; exact globalName_tl _ _

theorem rRemainder_tl (gcInfo : Nat) : ∀ (cls : List Text) (st : RSt) (line : Int),
    evsTL (rRemainder gcInfo cls st line).2.1 = false := by
  intro cls
  induction cls with
  | nil => intro st line; rfl
  | cons cl cls ih => intro st line; unfold rRemainder; simp [ih]

theorem replaceStream_tl (sorted : List Repl) (inner : SResult) : evsTL (replaceStream sorted inner).evs = false := by
  unfold replaceStream
  simp [rEvs_tl, rRemainder_tl]

/-! ## whole trees -/
mutual
theorem Src.stream_tl : ∀ (s : Src) (c : Bool) (σ : Store), evsTL (s.stream ⟨c, false⟩ σ).1.evs = false
  | .raw _ _ lossy, c, σ => by simp only [Src.stream]; exact streamRaw_tl lossy c
  | .rawStr t, c, σ => by simp only [Src.stream]; exact streamRaw_tl t c
  | .rawBuf _ lossy, c, σ => by simp only [Src.stream]; exact streamRaw_tl lossy c
  | .orig t name, c, σ => by simp only [Src.stream]; exact streamOriginal_tl t name c
  | .sms t name map origSrc inner remove, c, σ => by
    simp only [Src.stream]
    cases inner with
    | none => exact streamSM_tl t map c
    | some im => exact streamCombined_tl t map name origSrc im remove c
  | .concat .nil, c, σ => by simp only [Src.stream]; exact concatStream_tl [] (by simp)
  | .concat (.cons s rest), c, σ => by
    cases hr : rest with
    | nil => simp only [Src.stream]; exact Src.stream_tl s c σ
    | cons s2 rest2 =>
      simp only [Src.stream]
      apply concatStream_tl
      intro x hx
      simp only [List.mem_cons] at hx
      rcases hx with rfl | hx
      · exact Src.stream_tl s c σ
      · exact SrcList.streams_tl (.cons s2 rest2) c _ x hx
  | .replace inner rs, c, σ => by simp only [Src.stream]; exact replaceStream_tl _ _
  | .cached id inner, c, σ => by
    simp only [Src.stream]
    cases hg : Store.get? σ (id, ⟨c, false⟩) with
    | none => simp only; exact Src.stream_tl inner c σ
    | some v =>
      cases v with
      | none => simp only; exact streamRaw_tl inner.src c
      | some m => simp only; exact streamSM_tl inner.src m c
theorem SrcList.streams_tl : ∀ (l : SrcList) (c : Bool) (σ : Store), ∀ r ∈ (l.streams ⟨c, false⟩ σ).1, evsTL r.evs = false
  | .nil, c, σ => by simp [SrcList.streams]
  | .cons s rest, c, σ => by
    intro r hr
    simp only [SrcList.streams, List.mem_cons] at hr
    rcases hr with rfl | hr
    · exact Src.stream_tl s c σ
    · exact SrcList.streams_tl rest c _ r hr
end

end Rs
