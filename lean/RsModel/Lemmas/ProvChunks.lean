import RsModel.Lemmas.ReplaceOrig
import RsModel.Lemmas.ProvTree3
import RsModel.Lemmas.LeavesAttr
/-!
# C04: a ReplaceSource over a tree of OriginalSources reports true original positions

`ProvOK S evs`: reading the stream with the table of announced files `S`, every mapped chunk is a potential token of the file its
source index names (announced with its content), mapped to the token's true position in that file, without a name.  True of
OriginalSource leaves, preserved by ConcatSource (which only renumbers the files).  A ReplaceSource records the announced contents
under the same indices, so the recorded content always spells out the inner chunk and the advance rule (`rOnChunk_adv`) applies to
every mapped inner chunk: whatever the ReplaceSource delivers with a mapping is reported at the true position, in the named file, of
the byte at which the piece was cut.
-/
namespace Rs

/-- `tok` is a potential token of `T` starting at byte `k`, and `(l, c)` is its true position -/
structure TokPos (T : Text) (tok : Text) (l c k : Nat) : Prop where
  lt : k < T.length
  pre : tok <+: T.drop k
  ok : TokOK tok
  ne : tok ≠ []
  pos : adv startPos (T.take k) = ⟨l, c⟩

def ProvOK : SrcTbl → List Ev → Prop
  | _, [] => True
  | S, .chunk t m :: es =>
    (∀ a, m.orig = some a → ∃ name T tok k, S a.src = some (name, some T) ∧ t = some tok ∧ TokPos T tok a.line a.col k ∧ a.name = none) ∧ ProvOK S es
  | S, .source i s c :: es => ProvOK (upd S i (s, c)) es
  | S, .name _ _ :: es => ProvOK S es

theorem provOK_append : ∀ (a b : List Ev) (S : SrcTbl), ProvOK S (a ++ b) ↔ ProvOK S a ∧ ProvOK (tblS S a) b := by
  intro a
  induction a with
  | nil => intro b S; simp [ProvOK, tblS]
  | cons e es ih =>
    intro b S
    cases e with
    | chunk t m => simp only [List.cons_append, ProvOK, tblS, ih]; exact and_assoc.symm
    | source i s c => simp only [List.cons_append, ProvOK, tblS, ih]
    | name i n => simp only [List.cons_append, ProvOK, tblS, ih]

theorem provOK_unmapped : ∀ (evs : List Ev) (S : SrcTbl), (∀ e ∈ evs, ∃ t m, e = Ev.chunk t m ∧ m.orig = none) → ProvOK S evs := by
  intro evs
  induction evs with
  | nil => intro S _; trivial
  | cons e es ih =>
    intro S h
    obtain ⟨t, m, rfl, hm⟩ := h e (by simp)
    exact ⟨fun a ha => (by rw [hm] at ha; cases ha), ih S (fun x hx => h x (by simp [hx]))⟩

/-! ### leaves -/

theorem provOK_chunks (S : SrcTbl) (T name : Text) (hS : S 0 = some (name, some T)) : ∀ (evs : List Ev),
    (∀ e ∈ evs, ∃ t m, e = Ev.chunk t m ∧ (m.orig = none ∨ ∃ tok a k, t = some tok ∧ m.orig = some a ∧ TokAt T tok a k ∧ a.name = none)) →
    ProvOK S evs := by
  intro evs
  induction evs with
  | nil => intro _; trivial
  | cons e es ih =>
    intro h
    obtain ⟨t, m, rfl, hm⟩ := h e (by simp)
    refine ⟨fun a ha => ?_, ih (fun x hx => h x (by simp [hx]))⟩
    rcases hm with hm | ⟨tok, a', k, rfl, h1, h2, h3⟩
    · rw [hm] at ha; cases ha
    · rw [h1] at ha
      simp only [Option.some.injEq] at ha
      subst ha
      exact ⟨name, T, tok, k, by rw [h2.src]; exact hS, rfl, ⟨h2.lt, h2.pre, h2.ok, h2.ne, h2.pos⟩, h3⟩

theorem streamOriginal_provOK (T name : Text) : ProvOK emptyS (streamOriginal T name ⟨true, false⟩).evs := by
  have hall := original_tokAt T name
  simp only [streamOriginal, if_true] at hall ⊢
  simp only [ProvOK]
  apply provOK_chunks _ T name (by simp [upd])
  intro e he
  obtain ⟨t, m, rfl, hnm⟩ := origTokChunks_ref0 (tokens T) 1 0 e he
  refine ⟨t, m, rfl, ?_⟩
  rcases hall t m (List.mem_cons_of_mem _ he) with h0 | ⟨tok, a, k, h1, h2, h3⟩
  · exact Or.inl h0
  · exact Or.inr ⟨tok, a, k, h1, h2, h3, (hnm a h2).2⟩

theorem streamRaw_provOK (t : Text) (S : SrcTbl) : ProvOK S (streamRaw t ⟨true, false⟩).evs := by
  simp only [streamRaw, Bool.false_eq_true, if_false]
  apply provOK_unmapped
  intro e he
  have : ∀ (ls : List Text) (l : Nat), ∀ e ∈ rawChunks l ls, ∃ t m, e = Ev.chunk t m ∧ m.orig = none := by
    intro ls
    induction ls with
    | nil => intro l e he; simp [rawChunks] at he
    | cons x xs ih =>
      intro l e he
      simp only [rawChunks, List.mem_cons] at he
      rcases he with rfl | he
      · exact ⟨_, _, rfl, rfl⟩
      · exact ih _ e he
  exact this _ _ e he

/-! ### ConcatSource -/

theorem concatEv_prov (cons : Text → Option Text) (st : CSt) (S Sc : SrcTbl) (N Nc : NameTbl) (e : Ev) (rest : List Ev)
    (hg : GInv cons st S N) (hc : CInv st Sc Nc S N) (hd : WellDecl cons Sc Nc (e :: rest)) (hTL : e.textless = false)
    (hp : ProvOK Sc [e]) : ProvOK S (concatEv false st e).2 := by
  cases e with
  | chunk text m =>
    cases text with
    | none => simp [Ev.textless] at hTL
    | some t =>
      obtain ⟨hdm, _⟩ := hd
      cases ho : m.orig with
      | none =>
        simp only [concatEv, hg.nc, ho, Bool.false_and, Bool.false_eq_true, if_false, List.nil_append, Option.bind_none]
        exact ⟨fun a ha => (by cases ha), trivial⟩
      | some o =>
        obtain ⟨hs, _⟩ := hdm o ho
        obtain ⟨name, T, tok, k, p1, p2, p3, p4⟩ := hp.1 o ho
        obtain ⟨g, g1, g2, _⟩ := hc.src o.src name (some T) p1
        simp only [concatEv, hg.nc, ho, Bool.false_and, Bool.false_eq_true, if_false, List.nil_append, Option.bind_some, g1, p4, Option.bind_none]
        refine ⟨fun a ha => ?_, trivial⟩
        simp only [Option.some.injEq] at ha
        subst ha
        exact ⟨name, T, tok, k, g2, p2, by simpa using p3, rfl⟩
  | source i s c =>
    simp only [concatEv]
    unfold globalSource
    split
    · trivial
    · trivial
  | name i n =>
    simp only [concatEv]
    unfold globalName
    split
    · trivial
    · trivial

theorem concatEvs_prov (cons : Text → Option Text) : ∀ (evs : List Ev) (st : CSt) (S Sc : SrcTbl) (N Nc : NameTbl),
    GInv cons st S N → CInv st Sc Nc S N → WellDecl cons Sc Nc evs → evsTL evs = false → ProvOK Sc evs →
    ProvOK S (concatEvs false st evs).2 := by
  intro evs
  induction evs with
  | nil => intro st S Sc N Nc _ _ _ _ _; trivial
  | cons e es ih =>
    intro st S Sc N Nc hg hc hd hTL hp
    simp only [evsTL_cons, Bool.or_eq_false_iff] at hTL
    obtain ⟨_, a2, a3, a4⟩ := concatEv_attrN cons st S Sc N Nc e es hg hc hd hTL.1
    have hp' : ProvOK Sc [e] ∧ ProvOK (tblS Sc [e]) es := (provOK_append [e] es Sc).1 hp
    simp only [concatEvs]
    rw [provOK_append]
    exact ⟨concatEv_prov cons st S Sc N Nc e es hg hc hd hTL.1 hp'.1, ih _ _ _ _ _ a2 a3 a4 hTL.2 hp'.2⟩

theorem concatGo_prov (cons : Text → Option Text) : ∀ (children : List SResult) (st : CSt) (S : SrcTbl) (N : NameTbl),
    GInv cons st S N → (∀ c ∈ children, WellDecl cons emptyS emptyN c.evs ∧ evsTL c.evs = false ∧ ProvOK emptyS c.evs) →
    ProvOK S (concatGo false st children).2 := by
  intro children
  induction children with
  | nil => intro st S N _ _; trivial
  | cons c cs ih =>
    intro st S N hg hc
    obtain ⟨hd, hTL, hp⟩ := hc c (by simp)
    have hg0 : GInv cons { st with sim := [], nim := [], lastMappingLine := 0 } S N := ⟨hg.srcs, hg.names, hg.nc⟩
    obtain ⟨_, a2⟩ := concatEvs_attrN cons c.evs _ S emptyS N emptyN hg0 (cinv_fresh st S N) hd hTL
    have w := concatEvs_prov cons c.evs _ S emptyS N emptyN hg0 (cinv_fresh st S N) hd hTL hp
    simp only [concatGo, concatChild, a2.nc, Bool.false_and, Bool.false_eq_true, if_false, List.append_nil, Bool.or_self]
    rw [provOK_append]
    exact ⟨w, ih _ _ _ ⟨a2.srcs, a2.names, rfl⟩ (fun x hx => hc x (by simp [hx]))⟩

/-- a ConcatSource keeps "every mapped chunk is a token of its file at its true position" -/
theorem concatStream_prov (cons : Text → Option Text) (children : List SResult)
    (h : ∀ c ∈ children, WellDecl cons emptyS emptyN c.evs ∧ evsTL c.evs = false ∧ ProvOK emptyS c.evs) :
    ProvOK emptyS (concatStream false children).evs := by
  simp only [concatStream]
  exact concatGo_prov cons children {} emptyS emptyN
    ⟨fun s g h => by simp [Assoc.get?] at h, fun n g h => by simp [Assoc.get?] at h, rfl⟩ h

/-! ### trees of OriginalSource and raw leaves under ConcatSource -/
mutual
theorem Src.stream_prov (cons : Text → Option Text) : ∀ (s : Src), s.OrigTree → Src.WD cons true s → ∀ σ,
    ProvOK emptyS (s.stream ⟨true, false⟩ σ).1.evs
  | .raw _ _ lossy, _, _, σ => by simp only [Src.stream]; exact streamRaw_provOK lossy _
  | .rawStr t, _, _, σ => by simp only [Src.stream]; exact streamRaw_provOK t _
  | .rawBuf _ lossy, _, _, σ => by simp only [Src.stream]; exact streamRaw_provOK lossy _
  | .orig t name, _, _, σ => by simp only [Src.stream]; exact streamOriginal_provOK t name
  | .sms .., h, _, _ | .replace .., h, _, _ | .cached .., h, _, _ => by simp [Src.OrigTree] at h
  | .concat .nil, _, _, σ => by
    simp only [Src.stream]; exact concatStream_prov cons [] (by simp)
  | .concat (.cons s rest), ho, hw, σ => by
    simp only [Src.OrigTree, SrcList.OrigTrees] at ho
    simp only [Src.WD, SrcList.WD] at hw
    cases hr : rest with
    | nil =>
      simp only [Src.stream]
      exact Src.stream_prov cons s ho.1 hw.1 σ
    | cons s2 rest2 =>
      simp only [Src.stream]
      rw [hr] at ho hw
      apply concatStream_prov cons
      intro x hx
      simp only [List.mem_cons] at hx
      rcases hx with rfl | hx
      · exact ⟨Src.stream_wd cons true s hw.1 σ, Src.stream_tl s true σ, Src.stream_prov cons s ho.1 hw.1 σ⟩
      · exact ⟨SrcList.streams_wd cons true (.cons s2 rest2) hw.2 _ x hx, SrcList.streams_mem_tl _ true _ x hx,
          SrcList.streams_prov cons (.cons s2 rest2) ho.2 hw.2 _ x hx⟩
theorem SrcList.streams_prov (cons : Text → Option Text) : ∀ (l : SrcList), l.OrigTrees → SrcList.WD cons true l → ∀ σ,
    ∀ r ∈ (l.streams ⟨true, false⟩ σ).1, ProvOK emptyS r.evs
  | .nil, _, _, σ => by intro r hr; simp [SrcList.streams] at hr
  | .cons s rest, ho, hw, σ => by
    simp only [SrcList.OrigTrees] at ho
    simp only [SrcList.WD] at hw
    intro r hr
    simp only [SrcList.streams, List.mem_cons] at hr
    rcases hr with rfl | hr
    · exact Src.stream_prov cons s ho.1 hw.1 σ
    · exact SrcList.streams_prov cons rest ho.2 hw.2 _ r hr
end

/-! ### ReplaceSource over such a stream -/

theorem checkContent_src (c1 c2 : List (Option Text)) (o1 o2 : Orig) (e : Text) (hc : c1[o1.src]? = c2[o2.src]?) (hl : o1.line = o2.line) (hcol : o1.col = o2.col) :
    checkContent c1 o1 e = checkContent c2 o2 e := by
  unfold checkContent
  rw [hc, hl, hcol]

theorem fm_of_tokPos (T : Text) (ha : IsAscii T) (hl : T.length < USIZE_MAX) (tok : Text) (a : Orig) (k : Nat) (h : TokPos T tok a.line a.col k)
    (contents : List (Option Text)) (hc : contents[a.src]? = some (some T)) : FM contents a tok := by
  have h0 : FM [some T] { a with src := 0 } tok :=
    fm_of_tokAt T ha hl tok { a with src := 0 } k ⟨h.lt, h.pre, h.ok, h.ne, rfl, h.pos⟩ [some T] rfl
  intro p q h1 h2
  rw [checkContent_src contents [some T] { a with col := a.col + p } { ({ a with src := 0 } : Orig) with col := a.col + p } _ (by simpa using hc) rfl rfl]
  exact h0 p q h1 h2

/-- the contents recorded by the ReplaceSource are the announced ones, under the same indices -/
def CT (st : RSt) (S : SrcTbl) : Prop := ∀ i name c, S i = some (name, c) → st.contents[i]? = some c

theorem tokPos_advance (T tok : Text) (l c k p : Nat) (h : TokPos T tok l c k) (hp : p < tok.length) :
    k + p < T.length ∧ adv startPos (T.take (k + p)) = ⟨l, c + p⟩ := by
  obtain ⟨r, hr⟩ := h.pre
  have hlen : k + tok.length ≤ T.length := by
    have := congrArg List.length hr
    simp only [List.length_append, List.length_drop] at this
    omega
  refine ⟨by omega, ?_⟩
  rw [List.take_add, adv_append, h.pos, ← hr, List.take_append_of_le_length (Nat.le_of_lt hp),
    adv_noNL _ _ (tok_take_noNL tok h.ok p hp)]
  simp only [List.length_take, Nat.min_eq_left (Nat.le_of_lt hp)]

theorem bsub_of_prefix_drop (T tok : Text) (k p q : Nat) (h : tok <+: T.drop k) (hq : q ≤ tok.length) :
    bsub tok p q = bsub T (k + p) (k + q) := by
  obtain ⟨r, hr⟩ := h
  unfold bsub
  have e1 : T.drop (k + p) = tok.drop p ++ (if p ≤ tok.length then r else r.drop (p - tok.length)) := by
    rw [← List.drop_drop, ← hr, List.drop_append]
    by_cases hp : p ≤ tok.length
    · simp [hp, Nat.sub_eq_zero_of_le hp]
    · simp only [hp, if_false]
  rw [e1, List.take_append_of_le_length (by simp only [List.length_drop]; omega)]
  congr 1; omega

/-- what a chunk delivered by the ReplaceSource says, with the table of announced files `F`: it is unmapped, or it names a file `T`
of the table and the true line and column of a byte `q` of `T`, and its text is a piece `T[q..q')` of that file starting at that
very byte — byte `j` of the piece being byte `q + j` of `T`, on the reported line at the reported column plus `j`, the whole piece
lying inside one potential token `tok` of `T` (which starts at `k0`) — or a line of
the content of one of the replacements `RS` -/
def TrueAt (RS : List Repl) (F : SrcTbl) (t' : Option Text) (mm : Mapping) : Prop :=
  mm.orig = none ∨ ∃ name T q y, mm.orig = some y ∧ F y.src = some (name, some T) ∧ q < T.length ∧ adv startPos (T.take q) = ⟨y.line, y.col⟩
    ∧ ((∃ q', q < q' ∧ q' ≤ T.length ∧ t' = some (bsub T q q') ∧ (∀ j, j < q' - q → adv startPos (T.take (q + j)) = ⟨y.line, y.col + j⟩)
        ∧ ∃ tok k0 l0 c0, TokPos T tok l0 c0 k0 ∧ k0 ≤ q ∧ q' ≤ k0 + tok.length) ∨ (∃ r ∈ RS, ∃ cl ∈ splitLines r.content, t' = some cl))

theorem rEvs_prov (RS : List Repl) :
    ∀ (evs : List Ev) (st : RSt) (S : SrcTbl), CT st S → ProvOK S evs →
    (∀ i name T, S i = some (name, some T) → IsAscii T ∧ T.length < USIZE_MAX) →
    (∀ i s T, Ev.source i s (some T) ∈ evs → IsAscii T ∧ T.length < USIZE_MAX) →
    (∀ r ∈ st.rest, r ∈ RS) →
    ∀ t' mm, Ev.chunk t' mm ∈ (rEvs st evs).2 →
      mm.orig = none ∨ ∃ S' name T q y, mm.orig = some y ∧ S' y.src = some (name, some T) ∧ q < T.length ∧ adv startPos (T.take q) = ⟨y.line, y.col⟩
        ∧ ((∃ q', q < q' ∧ q' ≤ T.length ∧ t' = some (bsub T q q') ∧ (∀ j, j < q' - q → adv startPos (T.take (q + j)) = ⟨y.line, y.col + j⟩)
        ∧ ∃ tok k0 l0 c0, TokPos T tok l0 c0 k0 ∧ k0 ≤ q ∧ q' ≤ k0 + tok.length) ∨ (∃ r ∈ RS, ∃ cl ∈ splitLines r.content, t' = some cl))
        ∧ ∃ pre post, evs = pre ++ post ∧ S' = tblS S pre := by
  intro evs
  induction evs with
  | nil => intro st S _ _ _ _ _ t' mm h; simp [rEvs] at h
  | cons e es ih =>
    intro st S hct hp hS hE hrest t' mm h
    have hE' : ∀ i s T, Ev.source i s (some T) ∈ es → IsAscii T ∧ T.length < USIZE_MAX := fun i s T hm => hE i s T (List.mem_cons_of_mem _ hm)
    simp only [rEvs, List.mem_append] at h
    cases e with
    | chunk t m =>
      rcases h with h | h
      · simp only [rEv] at h
        cases hmo : m.orig with
        | none => exact Or.inl (((rOnChunk_keeps st (t.getD []) m).1 _ mm h).1 hmo)
        | some a =>
          obtain ⟨name, T, tok, k, p1, p2, p3, _⟩ := hp.1 a hmo
          subst p2
          obtain ⟨hTa, hTl⟩ := hS a.src name T p1
          have hfm := fm_of_tokPos T hTa hTl tok a k p3 st.contents (hct a.src name (some T) p1)
          obtain ⟨p, hpl, ⟨y, y1, y2, y3, y4⟩, hkind⟩ := (rOnChunk_adv RS st tok p3.ne m a hmo hfm hrest).1 _ mm h
          obtain ⟨q1, q2⟩ := tokPos_advance T tok a.line a.col k p p3 hpl
          refine Or.inr ⟨S, name, T, k + p, y, y1, by rw [y2]; exact p1, q1, by rw [y3, y4]; exact q2, ?_, [], _, rfl, rfl⟩
          rcases hkind with ⟨q, hq1, hq2, hq3⟩ | hk
          · refine Or.inl ⟨k + q, by omega, ?_, by rw [hq3, bsub_of_prefix_drop T tok k p q p3.pre hq2], ?_, tok, k, a.line, a.col, p3, by omega, by omega⟩
            · obtain ⟨r, hr⟩ := p3.pre
              have := congrArg List.length hr
              simp only [List.length_append, List.length_drop] at this
              omega
            · intro j hj
              have := (tokPos_advance T tok a.line a.col k (p + j) p3 (by omega)).2
              rw [y3, y4, Nat.add_assoc k p j, this, Nat.add_assoc]
          · exact Or.inr hk
      · have hct' : CT (rEv st (.chunk t m)).1 S := by
          intro i name c hi
          simp only [rEv]
          rw [(rOnChunk_keeps st (t.getD []) m).2.1]
          exact hct i name c hi
        have hrest' : ∀ r ∈ (rEv st (.chunk t m)).1.rest, r ∈ RS := by
          simp only [rEv]; exact fun r hr => hrest r (rOnChunk_restSub st (t.getD []) m r hr)
        rcases ih _ S hct' hp.2 hS hE' hrest' t' mm h with h0 | ⟨S', name, T, q, y, y1, y2, y3, y4, y5, pre, post, e1, e2⟩
        · exact Or.inl h0
        · exact Or.inr ⟨S', name, T, q, y, y1, y2, y3, y4, y5, Ev.chunk t m :: pre, post, by rw [e1]; rfl, by rw [e2]; rfl⟩
    | source i s c =>
      rcases h with h | h
      · simp [rEv] at h
      · have hct' : CT (rEv st (.source i s c)).1 (upd S i (s, c)) := by
          intro j name cc hj
          simp only [rEv]
          unfold upd at hj
          by_cases hji : j = i
          · subst hji
            simp only [if_true, Option.some.injEq, Prod.mk.injEq] at hj
            rw [lm_get_insert]; rw [hj.2]
          · simp only [hji, if_false] at hj
            have := hct j name cc hj
            rw [lm_get_other _ _ _ _ _ (List.getElem?_eq_some_iff.1 this).1 hji]
            exact this
        have hS' : ∀ j name T, upd S i (s, c) j = some (name, some T) → IsAscii T ∧ T.length < USIZE_MAX := by
          intro j name T hj
          unfold upd at hj
          by_cases hji : j = i
          · subst hji
            simp only [if_true, Option.some.injEq, Prod.mk.injEq] at hj
            exact hE j s T (by rw [← hj.2]; simp)
          · simp only [hji, if_false] at hj
            exact hS j name T hj
        have hrest' : ∀ r ∈ (rEv st (.source i s c)).1.rest, r ∈ RS := by simp only [rEv]; exact hrest
        rcases ih _ _ hct' hp hS' hE' hrest' t' mm h with h0 | ⟨S', name, T, q, y, y1, y2, y3, y4, y5, pre, post, e1, e2⟩
        · exact Or.inl h0
        · exact Or.inr ⟨S', name, T, q, y, y1, y2, y3, y4, y5, Ev.source i s c :: pre, post, by rw [e1]; rfl, by rw [e2]; rfl⟩
    | name i n =>
      rcases h with h | h
      · simp only [rEv] at h
        exact absurd h (globalName_noChunkMem _ _ t' mm)
      · have hct' : CT (rEv st (.name i n)).1 S := fun j name c hj => hct j name c hj
        have hrest' : ∀ r ∈ (rEv st (.name i n)).1.rest, r ∈ RS := hrest
        rcases ih _ S hct' hp hS hE' hrest' t' mm h with h0 | ⟨S', name, T, q, y, y1, y2, y3, y4, y5, pre, post, e1, e2⟩
        · exact Or.inl h0
        · exact Or.inr ⟨S', name, T, q, y, y1, y2, y3, y4, y5, Ev.name i n :: pre, post, by rw [e1]; rfl, by rw [e2]; rfl⟩

theorem tblS_noSrc : ∀ (l : List Ev) (S : SrcTbl), NoSrc l → tblS S l = S := by
  intro l
  induction l with
  | nil => intro S _; rfl
  | cons e es ih =>
    intro S h
    have h' : NoSrc es := fun i s c hm => h i s c (List.mem_cons_of_mem _ hm)
    cases e with
    | chunk t m => simp only [tblS]; exact ih S h'
    | name i n => simp only [tblS]; exact ih S h'
    | source i s c => exact absurd (List.mem_cons_self) (h i s c)

theorem tblS_rEvs : ∀ (evs : List Ev) (st : RSt) (S : SrcTbl), tblS S (rEvs st evs).2 = tblS S evs := by
  intro evs
  induction evs with
  | nil => intro st S; rfl
  | cons e es ih =>
    intro st S
    simp only [rEvs, tblS_append]
    cases e with
    | chunk t m => simp only [rEv, tblS]; rw [tblS_noSrc _ S (rOnChunk_noSrc _ _ _)]; exact ih _ S
    | name i n => simp only [rEv, tblS]; rw [tblS_noSrc _ S (globalName_noSrc _ _)]; exact ih _ S
    | source i s c => simp only [rEv, tblS]; exact ih _ _

theorem tblS_mono : ∀ (evs : List Ev) (ns nn : Nat) (S : SrcTbl), DeclOK ns nn evs → (∀ i, ns ≤ i → S i = none) →
    (∀ i x, S i = some x → tblS S evs i = some x) ∧ (∀ i, ns + cntS evs ≤ i → tblS S evs i = none) := by
  intro evs
  induction evs with
  | nil => intro ns nn S _ h; exact ⟨fun i x hx => hx, fun i hi => h i (by simpa [cntS] using hi)⟩
  | cons e es ih =>
    intro ns nn S hd h
    cases e with
    | chunk t m => simp only [tblS, cntS]; exact ih ns nn S hd.2 h
    | name i n => simp only [tblS, cntS]; exact ih ns (i + 1) S (by obtain ⟨rfl, h2⟩ := hd; exact h2) h
    | source i s c =>
      obtain ⟨rfl, hd2⟩ := hd
      simp only [tblS, cntS]
      have hfresh : ∀ j, i + 1 ≤ j → upd S i (s, c) j = none := by
        intro j hj; unfold upd; have : j ≠ i := by omega
        simp only [this, if_false]; exact h j (by omega)
      obtain ⟨i1, i2⟩ := ih (i + 1) nn _ hd2 hfresh
      refine ⟨fun j x hx => i1 j x ?_, fun j hj => i2 j (by omega)⟩
      unfold upd
      have : j ≠ i := by intro e; subst e; rw [h j (Nat.le_refl _)] at hx; cases hx
      simp only [this, if_false]; exact hx

mutual
theorem Src.origTree_idx : ∀ (s : Src), s.OrigTree → s.IdxHyp
  | .raw .., _ | .rawStr .., _ | .rawBuf .., _ | .orig .., _ => trivial
  | .sms .., h | .replace .., h | .cached .., h => by simp [Src.OrigTree] at h
  | .concat cs, h => by simp only [Src.OrigTree] at h; simp only [Src.IdxHyp]; exact SrcList.origTrees_idx cs h
theorem SrcList.origTrees_idx : ∀ (l : SrcList), l.OrigTrees → l.IdxHyps
  | .nil, _ => trivial
  | .cons s r, h => by simp only [SrcList.OrigTrees] at h; exact ⟨Src.origTree_idx s h.1, SrcList.origTrees_idx r h.2⟩
end

/-- **C04, ReplaceSource over any tree of OriginalSource and raw leaves under ConcatSource** (ASCII file contents, one content per
file name): every chunk the ReplaceSource delivers is unmapped, or names — through the files the stream itself announces — a file
`T` and a line and column that are the *true* position in `T` of some byte `q` of `T`, and its text is the bytes `T[q..q')` of that
very file starting at that very byte (a surviving piece of the original), or a line of the content of one of the replacements
(spliced in at byte `q`) -/
theorem replace_origTree_true (cons : Text → Option Text) (inner : Src) (ho : inner.OrigTree) (hw : Src.WD cons true inner)
    (hasc : ∀ n T, cons n = some T → IsAscii T ∧ T.length < USIZE_MAX) (rs : List Repl) (final : Bool) (σ : Store) :
    ∀ t' mm, Ev.chunk t' mm ∈ ((Src.replace inner rs).stream ⟨true, final⟩ σ).1.evs →
      TrueAt (sortRepls rs) (tblS emptyS ((Src.replace inner rs).stream ⟨true, final⟩ σ).1.evs) t' mm := by
  intro t' mm hmem
  simp only [Src.stream] at hmem ⊢
  generalize hr : (inner.stream ⟨true, false⟩ σ).1 = r at hmem ⊢
  have hprov : ProvOK emptyS r.evs := by rw [← hr]; exact Src.stream_prov cons inner ho hw σ
  have hwd : WellDecl cons emptyS emptyN r.evs := by rw [← hr]; exact Src.stream_wd cons true inner hw σ
  have hnc := Src.wd_nc cons inner hw
  have hnodes := Src.nc_nodes inner hnc
  have hdecl : DeclOK 0 0 r.evs := by
    rw [← hr]
    exact Src.stream_declOK inner _ σ (Src.origTree_idx inner ho) (by simp [Src.ids, hnodes]) (fun p hp => by rw [hnodes] at hp; simp at hp)
  have hcont := wellDecl_contOK cons _ _ _ hwd
  have hE : ∀ i s T, Ev.source i s (some T) ∈ r.evs → IsAscii T ∧ T.length < USIZE_MAX := by
    intro i s T hm
    exact hasc s T (hcont i s (some T) hm).symm
  -- the table of the whole stream is the inner stream's
  have htbl : tblS emptyS (replaceStream (sortRepls rs) r).evs = tblS emptyS r.evs := by
    simp only [replaceStream, tblS_append, tblS_rEvs]
    exact tblS_noSrc _ _ (rRemainder_unmapped _ _ _ _).2
  rw [htbl]
  simp only [replaceStream] at hmem
  rcases List.mem_append.1 hmem with hmem | hmem
  · rcases rEvs_prov (sortRepls rs) r.evs { rest := sortRepls rs } emptyS (fun i name c h => by simp [emptyS] at h) hprov
      (fun i name T h => by simp [emptyS] at h) hE (fun r hr => hr) t' mm hmem with h0 | ⟨S', name, T, q, y, y1, y2, y3, y4, y5, pre, post, e1, e2⟩
    · exact Or.inl h0
    · refine Or.inr ⟨name, T, q, y, y1, ?_, y3, y4, y5⟩
      rw [e1] at hdecl ⊢
      obtain ⟨dpre, dpost⟩ := (declOK_append pre post 0 0).1 hdecl
      have hdom := (tblS_mono pre 0 0 emptyS dpre (fun i _ => rfl)).2
      rw [tblS_append, ← e2]
      exact (tblS_mono post _ _ S' dpost (by rw [e2]; intro i hi; exact hdom i (by omega))).1 _ _ y2
  · exact Or.inl ((rRemainder_unmapped _ _ _ _).1 t' mm hmem)

theorem allContent_iff : ∀ (evs : List Ev), AllContent evs ↔ ∀ i s c, Ev.source i s c ∈ evs → c.isSome = true := by
  intro evs
  induction evs with
  | nil => simp [AllContent]
  | cons e es ih =>
    cases e with
    | chunk t m => simp only [AllContent, ih, List.mem_cons, reduceCtorEq, false_or]
    | name i n => simp only [AllContent, ih, List.mem_cons, reduceCtorEq, false_or]
    | source i s c =>
      simp only [AllContent, ih, List.mem_cons, Ev.source.injEq]
      constructor
      · rintro ⟨h1, h2⟩ i' s' c' (⟨_, _, rfl⟩ | h)
        · exact h1
        · exact h2 i' s' c' h
      · intro h
        exact ⟨h i s c (Or.inl ⟨rfl, rfl, rfl⟩), fun i' s' c' hm => h i' s' c' (Or.inr hm)⟩

/-- **C04, the same through `map()`**: whatever the SourceMap `get_map` returns for a ReplaceSource over a tree of OriginalSource and
raw leaves resolves a byte of `source()` to — through the map's own `sources` / `sourcesContent` tables — is a file with its exact
content and a line and column that are the true position of some byte of that content -/
theorem replace_origTree_map (cons : Text → Option Text) (inner : Src) (ho : inner.OrigTree) (hw : Src.WD cons true inner)
    (hasc : ∀ n T, cons n = some T → IsAscii T ∧ T.length < USIZE_MAX) (rs : List Repl)
    (hr : ∀ r ∈ rs, r.start ≤ r.stop) (hlen : (replaceSource inner.src rs).length + 1 < 2 ^ 32) (final : Bool)
    (hsmall : ∀ m ∈ chunkMs ((Src.replace inner rs).stream ⟨true, true⟩ []).1.evs, m.small)
    (sm : SMap) (hm : (getMap (.replace inner rs) ⟨true, final⟩ []).1 = some sm) :
    ∀ o, some o ∈ attrFrom (decode sm.mappings) startPos (replaceSource inner.src rs) →
      ∃ name T q, sm.sources[o.src]? = some name ∧ sm.sourcesContent[o.src]? = some T ∧ q < T.length
        ∧ adv startPos (T.take q) = ⟨o.line, o.col⟩ := by
  intro o hmem
  have hmode : (Src.replace inner rs).ModeHyp := ⟨Src.origTree_mode inner ho, hr, hlen⟩
  obtain ⟨b1, b2, b3, b4, b5, b6, b7⟩ := Src.base_facts _ hmode
  have hm3 := Src.m3 _ hmode
  have hattr := (getMap_attr (.replace inner rs) hmode final hsmall).1 sm hm
  have hsrc : (Src.replace inner rs).src = replaceSource inner.src rs := rfl
  rw [hsrc] at hattr
  rw [hattr] at hmem
  obtain ⟨m, hm1, hm2⟩ := attrOf_mem _ _ hmem
  obtain ⟨t, ht⟩ := chunkMs_mem_ev _ m hm1
  -- the chunk is at a true position of a file of the stream's own table
  rcases replace_origTree_true cons inner ho hw hasc rs false [] t m ht with h0 | ⟨name, T, q, y, y1, y2, y3, y4, _⟩
  · rw [h0] at hm2; cases hm2
  · rw [y1] at hm2
    simp only [Option.some.injEq] at hm2
    subst hm2
    refine ⟨name, T, q, ?_, ?_, y3, y4⟩
    all_goals
      -- the tables of the map are the tables the stream ends with
      have hAC : AllContent ((Src.replace inner rs).stream ⟨true, false⟩ []).1.evs := by
        rw [allContent_iff]
        intro i s c hs
        simp only [Src.stream] at hs
        have := ((replaceStream_keeps (sortRepls rs) _).2 i s c).1 hs
        exact (allContent_iff _).1 (Src.origTree_allContent inner ⟨true, false⟩ [] ho) i s c this
      have hrel := mapAcc_tblRel ((Src.replace inner rs).stream ⟨true, false⟩ []).1.evs 0 0 {} emptyS emptyN b5 hAC
        ⟨rfl, rfl, rfl, fun i hi => by omega, fun i hi => by omega⟩
      obtain ⟨d1, d2, d3⟩ := mapAcc_decls ((Src.replace inner rs).stream ⟨true, true⟩ []).1.evs {}
      obtain ⟨e1, e2, e3⟩ := mapAcc_decls ((Src.replace inner rs).stream ⟨true, false⟩ []).1.evs {}
      have hsm : sm.sources = (((Src.replace inner rs).stream ⟨true, false⟩ []).1.evs.foldl mapAccEv {}).sources
          ∧ sm.sourcesContent = (((Src.replace inner rs).stream ⟨true, false⟩ []).1.evs.foldl mapAccEv {}).contents := by
        simp only [getMap, mapOfEvs] at hm
        split at hm
        · cases hm
        · simp only [Option.some.injEq] at hm
          rw [← hm]
          simp only
          cases final <;> (rw [d1, d2, e1, e2, hm3.decls]; exact ⟨rfl, rfl⟩)
      obtain ⟨r1, r2, r3, r4, r5⟩ := hrel
      have hidx := declOK_chunkMs _ 0 0 b5 m hm1 o y1
      simp only [Nat.zero_add] at hidx r4
      have hfile := r4 o.src hidx.1
      rw [y2] at hfile
      first | rw [hsm.1] | rw [hsm.2]
    · cases hq : ((((Src.replace inner rs).stream ⟨true, false⟩ []).1.evs.foldl mapAccEv {}).sources)[o.src]? with
      | none => rw [hq] at hfile; simp at hfile
      | some f => rw [hq] at hfile; simp only [Option.map_some, Option.some.injEq, Prod.mk.injEq] at hfile; rw [hfile.1]
    · cases hq : ((((Src.replace inner rs).stream ⟨true, false⟩ []).1.evs.foldl mapAccEv {}).sources)[o.src]? with
      | none => rw [hq] at hfile; simp at hfile
      | some f => rw [hq] at hfile; simp only [Option.map_some, Option.some.injEq, Prod.mk.injEq] at hfile; exact hfile.2.symm

end Rs
