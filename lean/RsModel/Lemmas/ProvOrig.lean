import RsModel.Lemmas.ModeTree2
import RsModel.Lemmas.AttrTree
/-!
# C04: where the bytes of an OriginalSource are attributed (columns = true, normal stream)

Every byte of the text is attributed to source 0 at its own line and at the column of the token it belongs to — which is not
after the byte's own column, and is exactly the byte's column at a token start; the only unattributed bytes are the line breaks
of empty lines.
-/
namespace Rs

/-- (byte offset, length) of the chunks (with text) of a stream -/
def chunkOffs : Nat → List Ev → List (Nat × Nat)
  | _, [] => []
  | off, .chunk (some t) _ :: es => (off, t.length) :: chunkOffs (off + t.length) es
  | off, _ :: es => chunkOffs off es

/-- every chunk of the stream is mapped to its own generated position in source 0, or is the line break of an empty line -/
def OrigShape (evs : List Ev) : Prop :=
  ∀ t m, Ev.chunk (some t) m ∈ evs → m.orig = some ⟨0, m.gl, m.gc, none⟩ ∨ (m.orig = none ∧ t = [NL] ∧ m.gc = 0)

theorem origTok_shape : ∀ (toks : List Text) (l c : Nat) (s : Bool), NLStart s toks → (s = true → c = 0) →
    OrigShape (origTokChunks false l c toks).1 := by
  intro toks
  induction toks with
  | nil => intro l c s _ _ t m hm; simp [origTokChunks] at hm
  | cons tok toks ih =>
    intro l c s hn hc t m hm
    obtain ⟨hn1, hn2⟩ := hn
    simp only [origTokChunks, Bool.false_eq_true, if_false, List.mem_append] at hm
    rcases hm with hm | hm
    · split at hm
      · rename_i hb
        simp only [List.mem_singleton, Ev.chunk.injEq, Option.some.injEq] at hm
        obtain ⟨rfl, rfl⟩ := hm
        simp only [Bool.and_eq_true] at hb
        have := bare_nl t hb.1 hb.2
        exact Or.inr ⟨rfl, this, hc (hn1 this)⟩
      · simp only [List.mem_singleton, Ev.chunk.injEq, Option.some.injEq] at hm
        obtain ⟨rfl, rfl⟩ := hm
        exact Or.inl rfl
    · split at hm
      · rename_i he
        exact ih (l + 1) 0 (endsWithNL tok) hn2 (fun _ => rfl) t m hm
      · rename_i he
        exact ih l (c + tok.length) (endsWithNL tok) hn2 (fun h => by simp [h] at he) t m hm

theorem attrOf_chunk_get (t : Text) (o : Option Orig) (rest : List (Option Orig)) (j : Nat) (hj : j < t.length) :
    (List.replicate t.length o ++ rest)[j]? = some o := by
  rw [List.getElem?_append_left (by simpa using hj)]
  simp [hj]

/-- **where each byte is attributed** -/
theorem attr_identity : ∀ (evs : List Ev) (pre : Text), posOKT pre evs → ChunksTok evs → evsTL evs = false → OrigShape evs →
    ∀ j, j < (evsText evs).length →
      ((attrOf evs)[j]? = some none ∧ (evsText evs)[j]? = some NL ∧ (adv startPos (pre ++ (evsText evs).take j)).col = 0)
      ∨ ∃ k len, k ≤ j ∧ j < k + len ∧ (pre.length + k, len) ∈ chunkOffs pre.length evs ∧ j - k ≤ (adv startPos (pre ++ (evsText evs).take j)).col
          ∧ (attrOf evs)[j]? = some (some ⟨0, (adv startPos (pre ++ (evsText evs).take j)).line,
              (adv startPos (pre ++ (evsText evs).take j)).col - (j - k), none⟩) := by
  intro evs
  induction evs with
  | nil => intro pre _ _ _ _ j hj; simp [evsText] at hj
  | cons e es ih =>
    intro pre hp hT hTL hS j hj
    have hTs : ChunksTok es := fun t m hm => hT t m (by simp [hm])
    have hTLs : evsTL es = false := by simp only [evsTL_cons, Bool.or_eq_false_iff] at hTL; exact hTL.2
    have hSs : OrigShape es := fun t m hm => hS t m (by simp [hm])
    cases e with
    | chunk t m =>
      cases t with
      | none => simp [evsTL_cons, Ev.textless] at hTL
      | some t =>
        simp only [posOKT] at hp
        rw [evsText_cons] at hj ⊢
        simp only [Ev.text, attrOf, chunkOffs] at hj ⊢
        by_cases hin : j < t.length
        · have hq : adv startPos (pre ++ (t ++ evsText es).take j) = ⟨m.gl, m.gc + j⟩ := by
            rw [List.take_append_of_le_length (by omega), adv_append, ← hp.1,
              adv_noNL _ _ (tok_prefix_noNL t (hT t m (by simp)) j hin)]
            simp; omega
          rw [hq, attrOf_chunk_get t m.orig _ j hin]
          rcases hS t m (by simp) with ho | ⟨ho, ht, hc⟩
          · refine Or.inr ⟨0, t.length, Nat.zero_le _, by omega, by simp, by simp, ?_⟩
            rw [ho]; simp
          · subst ht
            have : j = 0 := by simpa using hin
            subst this
            refine Or.inl ⟨by rw [ho], by simp, by simp [hc]⟩
        · have hge : t.length ≤ j := by omega
          have htake : (t ++ evsText es).take j = t ++ (evsText es).take (j - t.length) := by
            have e : j = t.length + (j - t.length) := by omega
            conv => lhs; rw [e]
            exact List.take_length_add_append _
          have hget : (List.replicate t.length m.orig ++ attrOf es)[j]? = (attrOf es)[j - t.length]? := by
            rw [List.getElem?_append_right (by simpa using hge)]; simp
          have hgetT : (t ++ evsText es)[j]? = (evsText es)[j - t.length]? := by
            rw [List.getElem?_append_right hge]
          rw [htake, ← List.append_assoc, hget, hgetT]
          rcases ih (pre ++ t) hp.2 hTs hTLs hSs (j - t.length) (by simp at hj; omega) with h | ⟨k, len, hk1, hk1', hk2, hk3, hk4⟩
          · exact Or.inl h
          · refine Or.inr ⟨t.length + k, len, by omega, by omega, ?_, ?_, ?_⟩
            · simp only [List.length_append] at hk2
              simp only [List.mem_cons]
              exact Or.inr (by rw [← Nat.add_assoc]; exact hk2)
            · have : j - (t.length + k) = j - t.length - k := by omega
              rw [this]; exact hk3
            · have : j - (t.length + k) = j - t.length - k := by omega
              rw [this]; exact hk4
    | source i s c =>
      rw [evsText_cons] at hj ⊢
      simp only [Ev.text, List.nil_append, attrOf, chunkOffs] at hj ⊢
      exact ih pre hp hTs hTLs hSs j hj
    | name i n =>
      rw [evsText_cons] at hj ⊢
      simp only [Ev.text, List.nil_append, attrOf, chunkOffs] at hj ⊢
      exact ih pre hp hTs hTLs hSs j hj

/-- (byte offset, length) of the potential tokens of a text -/
def tokOffs : Nat → List Text → List (Nat × Nat)
  | _, [] => []
  | off, tok :: toks => (off, tok.length) :: tokOffs (off + tok.length) toks

theorem origTok_offs : ∀ (toks : List Text) (l c off : Nat), chunkOffs off (origTokChunks false l c toks).1 = tokOffs off toks := by
  intro toks
  induction toks with
  | nil => intro l c off; rfl
  | cons tok toks ih =>
    intro l c off
    simp only [origTokChunks, Bool.false_eq_true, if_false, tokOffs]
    have h1 : ∀ (x : List Ev) (t : Text) (m : Mapping) (r : List Ev), x = [Ev.chunk (some t) m] → chunkOffs off (x ++ r) = (off, t.length) :: chunkOffs (off + t.length) r := by
      intro x t m r hx; subst hx; rfl
    split
    · split
      · exact (h1 _ tok _ _ rfl).trans (by rw [ih])
      · exact (h1 _ tok _ _ rfl).trans (by rw [ih])
    · split
      · exact (h1 _ tok _ _ rfl).trans (by rw [ih])
      · exact (h1 _ tok _ _ rfl).trans (by rw [ih])

/-- **OriginalSource, columns = true**: every byte `j` of the text is attributed to source 0 at its own line and at the column of
the potential token it lies in (the token occupies bytes `k .. k+len`): never after the byte's own column, and exactly that column when the byte
starts a token; the only exception are the line breaks of empty lines, which are unmapped. -/
theorem original_attr (t name : Text) (j : Nat) (hj : j < t.length) :
    ((attrOf (streamOriginal t name ⟨true, false⟩).evs)[j]? = some none ∧ t[j]? = some NL ∧ (adv startPos (t.take j)).col = 0)
    ∨ ∃ k len, k ≤ j ∧ j < k + len ∧ (k, len) ∈ tokOffs 0 (tokens t) ∧ j - k ≤ (adv startPos (t.take j)).col
        ∧ (attrOf (streamOriginal t name ⟨true, false⟩).evs)[j]? = some (some ⟨0, (adv startPos (t.take j)).line, (adv startPos (t.take j)).col - (j - k), none⟩) := by
  have hp := streamOriginal_posOK t name true
  have hT := streamOriginal_tok t name true
  have hTL := streamOriginal_tl t name true
  have hx := streamOriginal_text t name true
  have hS : OrigShape (streamOriginal t name ⟨true, false⟩).evs := by
    intro tt m hm
    simp only [streamOriginal, if_true, List.mem_cons] at hm
    rcases hm with hm | hm
    · cases hm
    · exact origTok_shape (tokens t) 1 0 true (tokens_nlstart t) (fun _ => rfl) tt m hm
  have := attr_identity _ [] hp.1 hT hTL hS j (by rw [hx]; exact hj)
  rw [hx] at this
  simp only [List.nil_append, List.length_nil, Nat.zero_add] at this
  have hoffs : chunkOffs 0 (streamOriginal t name ⟨true, false⟩).evs = tokOffs 0 (tokens t) := by
    simp only [streamOriginal, if_true, chunkOffs]
    exact origTok_offs _ _ _ _
  rw [hoffs] at this
  exact this

end Rs
