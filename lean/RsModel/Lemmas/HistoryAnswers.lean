import RsModel.Lemmas.Histories
import RsModel.Lemmas.WarmMap
/-!
# What every call of every history answers (C03 / C10)

`runCalls_results` (each call returns the cache-free tree's stream or the replay tree's stream for its options) ∘ the two-call
theorems (`Src.warm_NA`, `Src.warmF_NA`, `getMap_names`): in any history of streaming / `get_map` calls, of any length, in any
order of options, every normal-mode stream with columns and every map built from a text-less stream with columns resolves every
byte of `source()` to the same file name, original line, original column and name — those of the cache-free tree.
-/
namespace Rs

theorem runCalls_is_stream (s : Src) : ∀ (calls : List Opts) (σ : Store) (k : Nat) (o : Opts), calls[k]? = some o →
    ∃ σ', (runCalls s calls σ).1[k]? = some (s.stream o σ').1 := by
  intro calls
  induction calls with
  | nil => intro σ k o h; simp at h
  | cons c cs ih =>
    intro σ k o h
    cases k with
    | zero =>
      simp only [List.getElem?_cons_zero, Option.some.injEq] at h
      subst h
      exact ⟨σ, by simp only [runCalls, List.getElem?_cons_zero]⟩
    | succ k =>
      simp only [List.getElem?_cons_succ] at h
      obtain ⟨σ', h'⟩ := ih (s.stream c σ).2 k o h
      exact ⟨σ', by simp only [runCalls, List.getElem?_cons_succ]; exact h'⟩

/-- every normal-mode stream (columns = true) of every history attributes like the cache-free tree's -/
theorem history_stream_NA (s : Src) (hk : s.NoCR) (hn : s.ids.Nodup) (σ : Store) (hc : Cold σ s.ids) (h : s.WarmHyp)
    (calls : List Opts) (k : Nat) (hcall : calls[k]? = some ⟨true, false⟩) :
    ∃ r, (runCalls s calls σ).1[k]? = some r ∧ NA r.evs = NA (s.strip.stream ⟨true, false⟩ []).1.evs := by
  refine ⟨_, runCalls_results s hk hn σ hc calls k _ hcall, ?_⟩
  unfold answerOf
  split
  · exact (Src.warm_NA s h (Src.noCR_cachedOK s hk)).1
  · rfl

/-- every map built from a text-less stream (columns = true) of every history resolves every byte like the cache-free tree's
normal-mode stream -/
theorem history_map_NA (s : Src) (hk : s.NoCR) (hn : s.ids.Nodup) (σ : Store) (hc : Cold σ s.ids) (h : s.ModeHypC) (hs : s.SmallF)
    (hsmall1 : ∀ m ∈ chunkMs (s.strip.stream ⟨true, true⟩ []).1.evs, m.small)
    (hsmall2 : ∀ m ∈ chunkMs ((s.warm ⟨true, true⟩).stream ⟨true, true⟩ []).1.evs, m.small)
    (calls : List Opts) (k : Nat) (hcall : calls[k]? = some ⟨true, true⟩) :
    ∃ r, (runCalls s calls σ).1[k]? = some r ∧ ∀ sm, mapOfEvs true r.evs = some sm →
      (attrFrom (decode sm.mappings) startPos s.src).map (Option.map (resolveMF sm)) = NA (s.strip.stream ⟨true, false⟩ []).1.evs := by
  refine ⟨_, runCalls_results s hk hn σ hc calls k _ hcall, ?_⟩
  intro sm hsm
  unfold answerOf at hsm
  have hck := Src.noCR_cachedOK s hk
  split at hsm
  · obtain ⟨a1, a2⟩ := Src.warmF_NA s h hck hs
    have hwnc := Src.warm_nc s ⟨true, true⟩ hck
    obtain ⟨hwn, _, _⟩ := nc_facts _ hwnc
    have e2 := getMap_names (s.warm ⟨true, true⟩) a2 hwn [] [] (cold_nil _) (cold_nil _) true hsmall2 sm (by simp only [getMap]; exact hsm)
    rw [Src.warm_src] at e2
    rw [e2]
    exact a1
  · have hsn := Src.strip_nc s
    obtain ⟨hn', _, _⟩ := nc_facts _ hsn
    have e1 := getMap_names s.strip (Src.strip_modeHypC s h) hn' [] [] (cold_nil _) (cold_nil _) true hsmall1 sm (by simp only [getMap]; exact hsm)
    rw [Src.strip_src] at e1
    exact e1

end Rs
