import RsModel.Lemmas.Rope
/-!
# Rope: the binary searches of `get_byte` / `get_byte_slice_impl` find the right piece

`bsLoop` is std's branch-free `binary_search_by`.  For a comparison that is monotone over the list (never `gt`
before a position where it is not `gt`) it returns the LAST index whose comparison is not `gt` (or 0).
-/
namespace Rs
namespace Rope

theorem bsLoop_spec {α} (f : α → Ordering) (xs : List α) (d : α)
    (hmono : ∀ i j, i ≤ j → j < xs.length → f (xs.getD j d) ≠ .gt → f (xs.getD i d) ≠ .gt) :
    ∀ (fuel base size : Nat), 1 ≤ size → base + size ≤ xs.length → size ≤ fuel →
      (base = 0 ∨ f (xs.getD base d) ≠ .gt) →
      (∀ j, base + size ≤ j → j < xs.length → f (xs.getD j d) = .gt) →
      bsLoop f xs d fuel base size < xs.length
      ∧ (bsLoop f xs d fuel base size = 0 ∨ f (xs.getD (bsLoop f xs d fuel base size) d) ≠ .gt)
      ∧ (∀ j, bsLoop f xs d fuel base size < j → j < xs.length → f (xs.getD j d) = .gt) := by
  intro fuel
  induction fuel with
  | zero => intro base size h1 _ h3; omega
  | succ fuel ih =>
    intro base size h1 h2 h3 hb hgt
    unfold bsLoop
    by_cases hs : size > 1
    · simp only [hs, if_true]
      have hhalf : 1 ≤ size / 2 := by omega
      have hlt : size / 2 < size := by omega
      by_cases hc : f (xs.getD (base + size / 2) d) = .gt
      · simp only [hc, beq_self_eq_true, if_true]
        apply ih base (size - size / 2) (by omega) (by omega) (by omega) hb
        intro j hj hjl
        by_cases hj2 : base + size ≤ j
        · exact hgt j hj2 hjl
        · -- base + size/2 ≤ j: monotone
          have hmid : base + size / 2 ≤ j := by omega
          cases hfj : f (xs.getD j d) with
          | gt => rfl
          | lt => exact absurd hc (hmono _ j hmid hjl (by rw [hfj]; decide))
          | eq => exact absurd hc (hmono _ j hmid hjl (by rw [hfj]; decide))
      · have hne : (f (xs.getD (base + size / 2) d) == .gt) = false := by
          cases hfm : f (xs.getD (base + size / 2) d) <;> simp_all
        simp only [hne, Bool.false_eq_true, if_false]
        apply ih (base + size / 2) (size - size / 2) (by omega) (by omega) (by omega) (Or.inr hc)
        intro j hj hjl
        exact hgt j (by omega) hjl
    · simp only [hs, if_false]
      have : size = 1 := by omega
      subst this
      exact ⟨by omega, hb, fun j hj hjl => hgt j (by omega) hjl⟩

/-- `binary_search_by(|x| key(x).cmp(&i)).unwrap_or_else(|p| p.saturating_sub(1))` -/
def lastLE {α} [Inhabited α] (key : α → Nat) (xs : List α) (i : Nat) : Nat :=
  match binSearch (fun p => compare (key p) i) xs with | .inl k => k | .inr k => k - 1

/-- for keys that are monotone and start at or below `i`, it is the last index whose key is `≤ i` -/
theorem lastLE_spec {α} [Inhabited α] (key : α → Nat) (xs : List α) (i : Nat) (hne : xs ≠ [])
    (hmono : ∀ a b, a ≤ b → b < xs.length → key (xs.getD a default) ≤ key (xs.getD b default))
    (h0 : key (xs.getD 0 default) ≤ i) :
    lastLE key xs i < xs.length ∧ key (xs.getD (lastLE key xs i) default) ≤ i
    ∧ ∀ j, lastLE key xs i < j → j < xs.length → i < key (xs.getD j default) := by
  have hlen : 0 < xs.length := List.length_pos_iff.mpr hne
  have hm : ∀ a b, a ≤ b → b < xs.length → compare (key (xs.getD b default)) i ≠ .gt → compare (key (xs.getD a default)) i ≠ .gt := by
    intro a b hab hb h
    have := hmono a b hab hb
    rw [Ne, Nat.compare_eq_gt] at h ⊢
    omega
  obtain ⟨r1, r2, r3⟩ := bsLoop_spec (fun p => compare (key p) i) xs default hm xs.length 0 xs.length (by omega) (by omega) (by omega) (Or.inl rfl)
    (fun j hj hjl => by omega)
  have hl : ¬ xs.length = 0 := by omega
  unfold lastLE binSearch
  simp only [hl, if_false]
  generalize bsLoop (fun p => compare (key p) i) xs default xs.length 0 xs.length = r at *
  have hP : key (xs.getD r default) ≤ i := by
    rcases r2 with rfl | h
    · exact h0
    · simp only [Ne, Nat.compare_eq_gt] at h; omega
  have hgt : ∀ j, r < j → j < xs.length → i < key (xs.getD j default) := by
    intro j hj hjl
    have := r3 j hj hjl
    simp only [Nat.compare_eq_gt] at this; exact this
  rcases Nat.lt_or_eq_of_le hP with h | h
  · have hc : compare (key (xs.getD r default)) i = .lt := Nat.compare_eq_lt.2 h
    simp only [hc, show (Ordering.lt == Ordering.eq) = false from rfl, Bool.false_eq_true, if_false, beq_self_eq_true, if_true, Nat.add_sub_cancel]
    exact ⟨r1, hP, hgt⟩
  · have hc : compare (key (xs.getD r default)) i = .eq := Nat.compare_eq_eq.2 h
    simp only [hc, beq_self_eq_true, if_true]
    exact ⟨r1, hP, hgt⟩

end Rope
end Rs

namespace Rs
namespace Rope

/-! ## pieces and offsets -/

theorem offsOK_start : ∀ (ps : List (Text × Nat)) (s k : Nat), OffsOK s ps → k < ps.length →
    (ps.getD k default).2 = s + total (ps.take k) := by
  intro ps
  induction ps with
  | nil => intro s k _ hk; simp at hk
  | cons p rest ih =>
    intro s k h hk
    obtain ⟨c, o⟩ := p
    obtain ⟨h1, h2⟩ := h
    cases k with
    | zero => simp [total, h1]
    | succ k =>
      have := ih (s + c.length) k h2 (by simpa using hk)
      simp only [List.getD_cons_succ, List.take_succ_cons, total, List.map_cons, List.sum_cons] at this ⊢
      rw [this]; omega

theorem total_take_le (ps : List (Text × Nat)) (a b : Nat) (h : a ≤ b) : total (ps.take a) ≤ total (ps.take b) := by
  have : ps.take b = ps.take a ++ (ps.take b).drop a := by
    have h1 := (List.take_append_drop a (ps.take b)).symm
    rw [List.take_take, Nat.min_eq_left h] at h1
    exact h1
  rw [this, total_append]; omega

theorem total_take_succ (ps : List (Text × Nat)) (k : Nat) (hk : k < ps.length) :
    total (ps.take (k + 1)) = total (ps.take k) + (ps.getD k default).1.length := by
  rw [List.take_add_one, total_append]
  simp [total, List.getD_eq_getElem?_getD, List.getElem?_eq_getElem hk]

theorem total_take_all (ps : List (Text × Nat)) (k : Nat) (hk : ps.length ≤ k) : total (ps.take k) = total ps := by
  rw [List.take_of_length_le hk]

/-- end offset of piece `k` -/
theorem offsOK_end (ps : List (Text × Nat)) (s k : Nat) (h : OffsOK s ps) (hk : k < ps.length) :
    (ps.getD k default).2 + (ps.getD k default).1.length = s + total (ps.take (k + 1)) := by
  rw [offsOK_start ps s k h hk, total_take_succ ps k hk]; omega

/-- the flat text of a piece list -/
def flat (ps : List (Text × Nat)) : Text := (ps.map (·.1)).flatten

theorem flat_append (a b : List (Text × Nat)) : flat (a ++ b) = flat a ++ flat b := by simp [flat]
theorem flat_length (ps : List (Text × Nat)) : (flat ps).length = total ps := render_length_full ps

theorem flat_split (ps : List (Text × Nat)) (k : Nat) (hk : k < ps.length) :
    flat ps = flat (ps.take k) ++ (ps.getD k default).1 ++ flat (ps.drop (k + 1)) := by
  conv => lhs; rw [← List.take_append_drop k ps]
  rw [flat_append, List.drop_eq_getElem_cons hk]
  simp only [flat, List.map_cons, List.flatten_cons, List.getD_eq_getElem?_getD, List.getElem?_eq_getElem hk, Option.getD_some,
    List.append_assoc]

theorem bsub_mid (x y z : Text) (a b : Nat) (ha : x.length ≤ a) (hab : a ≤ b) (hb : b ≤ x.length + y.length) :
    bsub (x ++ y ++ z) a b = bsub y (a - x.length) (b - x.length) := by
  unfold bsub
  rw [List.append_assoc, List.drop_append, List.drop_eq_nil_of_le ha, List.nil_append, List.drop_append, List.take_append]
  have h2 : (z.drop (a - x.length - y.length)).take (b - a - (y.drop (a - x.length)).length) = [] := by
    rw [List.take_eq_nil_iff]; left
    simp only [List.length_drop]; omega
  rw [h2, List.append_nil]
  congr 1; omega

/-- a window that lies inside piece `k` -/
theorem bsub_in_piece (ps : List (Text × Nat)) (k a b : Nat) (hk : k < ps.length)
    (ha : total (ps.take k) ≤ a) (hab : a ≤ b) (hb : b ≤ total (ps.take k) + (ps.getD k default).1.length) :
    bsub (flat ps) a b = bsub (ps.getD k default).1 (a - total (ps.take k)) (b - total (ps.take k)) := by
  rw [flat_split ps k hk]
  have hl : (flat (ps.take k)).length = total (ps.take k) := flat_length _
  rw [bsub_mid _ _ _ a b (by omega) hab (by omega), hl]

end Rope
end Rs

namespace Rs
namespace Rope

theorem render_full (ps : List (Text × Nat)) : (Rope.full ps).render = flat ps := rfl

theorem starts_mono (ps : List (Text × Nat)) (h : OffsOK 0 ps) :
    ∀ a b, a ≤ b → b < ps.length → (ps.getD a default).2 ≤ (ps.getD b default).2 := by
  intro a b hab hb
  rw [offsOK_start ps 0 a h (by omega), offsOK_start ps 0 b h hb]
  have := total_take_le ps a b hab; omega

theorem ends_mono (ps : List (Text × Nat)) (h : OffsOK 0 ps) :
    ∀ a b, a ≤ b → b < ps.length →
      (ps.getD a default).2 + (ps.getD a default).1.length ≤ (ps.getD b default).2 + (ps.getD b default).1.length := by
  intro a b hab hb
  rw [offsOK_end ps 0 a h (by omega), offsOK_end ps 0 b h hb]
  have := total_take_le ps (a + 1) (b + 1) (by omega); omega

theorem startChunk_eq (ps : List (Text × Nat)) (i : Nat) : startChunk ps i = lastLE (·.2) ps i := rfl

/-- the piece found for position `i` is the piece that contains byte `i` -/
theorem startChunk_spec (ps : List (Text × Nat)) (h : OffsOK 0 ps) (hne : ps ≠ []) (i : Nat) :
    startChunk ps i < ps.length ∧ total (ps.take (startChunk ps i)) ≤ i
    ∧ (∀ j, startChunk ps i < j → j < ps.length → i < total (ps.take j)) := by
  have h0 : (ps.getD 0 default).2 ≤ i := by
    rw [offsOK_start ps 0 0 h (List.length_pos_iff.mpr hne)]; simp [total]
  obtain ⟨a, b, c⟩ := lastLE_spec (·.2) ps i hne (starts_mono ps h) h0
  rw [startChunk_eq]
  refine ⟨a, ?_, ?_⟩
  · have := offsOK_start ps 0 _ h a; omega
  · intro j hj hjl
    have := c j hj hjl
    have h2 := offsOK_start ps 0 j h hjl
    omega

theorem endOf_total (ps : List (Text × Nat)) (h : OffsOK 0 ps) : endOf ps = total ps := by
  by_cases hne : ps = []
  · subst hne; rfl
  · simpa using endOf_eq 0 ps h hne

/-- **`get_byte(i)` is the `i`-th byte of the flat string** (never panics under the invariant) -/
theorem getByte_spec (r : Rope) (hinv : r.Inv) (i : Nat) : getByte r i = .ok (r.render[i]?) := by
  unfold getByte
  have hlen := len_eq_render r hinv
  by_cases hi : i ≥ r.len
  · simp only [hi, if_true]
    rw [List.getElem?_eq_none (by omega)]
  · simp only [hi, if_false]
    cases r with
    | light s =>
      have : i < s.length := by simp only [len] at hi; omega
      simp only [render, List.getElem?_eq_getElem this]
    | full ps =>
      simp only [Inv] at hinv
      have hne : ps ≠ [] := by
        intro he; subst he; simp [len, endOf] at hi
      obtain ⟨k1, k2, k3⟩ := startChunk_spec ps hinv hne i
      have hi' : i < total ps := by
        simp only [len] at hi; rw [endOf_total ps hinv] at hi; omega
      simp only
      rw [List.getElem?_eq_getElem k1]
      have hst := offsOK_start ps 0 _ hinv k1
      have hget : ps[startChunk ps i] = ps.getD (startChunk ps i) default := by
        simp [List.getD_eq_getElem?_getD, List.getElem?_eq_getElem k1]
      -- the found piece contains `i`
      have hin : i < total (ps.take (startChunk ps i)) + (ps.getD (startChunk ps i) default).1.length := by
        by_cases hlast : startChunk ps i + 1 < ps.length
        · have := k3 _ (Nat.lt_succ_self _) hlast
          rw [total_take_succ ps _ k1] at this; exact this
        · have := total_take_succ ps _ k1
          rw [total_take_all ps _ (by omega)] at this; omega
      rw [hget]
      have hst' : (ps.getD (startChunk ps i) default).2 = total (ps.take (startChunk ps i)) := by omega
      simp only [hst', show ¬ i < total (ps.take (startChunk ps i)) from by omega, if_false]
      rw [render_full, flat_split ps _ k1]
      have hl : (flat (ps.take (startChunk ps i))).length = total (ps.take (startChunk ps i)) := flat_length _
      rw [List.append_assoc, List.getElem?_append_right (by omega), List.getElem?_append_left (by omega), hl]
      rw [List.getElem?_eq_getElem (by omega)]

end Rope
end Rs

namespace Rs
namespace Rope

/-- `binary_search_by(|x| key(x).cmp(&e)).unwrap_or_else(|p| p)` -/
def findEnd {α} [Inhabited α] (key : α → Nat) (xs : List α) (e : Nat) : Nat :=
  match binSearch (fun p => compare (key p) e) xs with | .inl k => k | .inr k => k

theorem findEnd_spec {α} [Inhabited α] (key : α → Nat) (xs : List α) (e : Nat) (hne : xs ≠ [])
    (hmono : ∀ a b, a ≤ b → b < xs.length → key (xs.getD a default) ≤ key (xs.getD b default)) :
    (findEnd key xs e < xs.length ∧ key (xs.getD (findEnd key xs e) default) = e
      ∧ ∀ j, findEnd key xs e < j → j < xs.length → e < key (xs.getD j default))
    ∨ (findEnd key xs e ≤ xs.length ∧ (∀ j, j < findEnd key xs e → key (xs.getD j default) < e)
      ∧ ∀ j, findEnd key xs e ≤ j → j < xs.length → e < key (xs.getD j default)) := by
  have hlen : 0 < xs.length := List.length_pos_iff.mpr hne
  have hm : ∀ a b, a ≤ b → b < xs.length → compare (key (xs.getD b default)) e ≠ .gt → compare (key (xs.getD a default)) e ≠ .gt := by
    intro a b hab hb h
    have := hmono a b hab hb
    rw [Ne, Nat.compare_eq_gt] at h ⊢
    omega
  obtain ⟨r1, r2, r3⟩ := bsLoop_spec (fun p => compare (key p) e) xs default hm xs.length 0 xs.length (by omega) (by omega) (by omega) (Or.inl rfl)
    (fun j hj hjl => by omega)
  have hl : ¬ xs.length = 0 := by omega
  unfold findEnd binSearch
  simp only [hl, if_false]
  generalize bsLoop (fun p => compare (key p) e) xs default xs.length 0 xs.length = r at *
  have hgt : ∀ j, r < j → j < xs.length → e < key (xs.getD j default) := by
    intro j hj hjl
    have := r3 j hj hjl
    simp only [Nat.compare_eq_gt] at this; exact this
  rcases Nat.lt_trichotomy (key (xs.getD r default)) e with h | h | h
  · have hc : compare (key (xs.getD r default)) e = .lt := Nat.compare_eq_lt.2 h
    simp only [hc, show (Ordering.lt == Ordering.eq) = false from rfl, Bool.false_eq_true, if_false, beq_self_eq_true, if_true]
    right
    refine ⟨by omega, ?_, ?_⟩
    · intro j hj
      have := hmono j r (by omega) r1; omega
    · intro j hj hjl; exact hgt j (by omega) hjl
  · have hc : compare (key (xs.getD r default)) e = .eq := Nat.compare_eq_eq.2 h
    simp only [hc, beq_self_eq_true, if_true]
    left; exact ⟨r1, h, hgt⟩
  · have hc : compare (key (xs.getD r default)) e = .gt := Nat.compare_eq_gt.2 h
    simp only [hc, show (Ordering.gt == Ordering.eq) = false from rfl, show (Ordering.gt == Ordering.lt) = false from rfl,
      Bool.false_eq_true, if_false, Nat.add_zero]
    -- then r = 0 (nothing is ≤ e)
    have hr0 : r = 0 := by
      rcases r2 with h0 | h0
      · exact h0
      · exact absurd hc h0
    subst hr0
    right
    refine ⟨by omega, fun j hj => by omega, ?_⟩
    intro j _ hjl
    rcases Nat.eq_zero_or_pos j with rfl | hp
    · exact h
    · exact hgt j hp hjl

theorem endChunk_eq (ps : List (Text × Nat)) (e : Nat) : endChunk ps e = findEnd (fun p => p.2 + p.1.length) ps e := rfl

end Rope
end Rs
