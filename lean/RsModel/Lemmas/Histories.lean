import RsModel.Lemmas.WarmTree
/-!
# Call histories of any length on a tree with CachedSource nodes

A cache entry is keyed by the node and the options `(columns, final_source)`.  For a tree with no CachedSource beneath a
ReplaceSource (`Src.NoCR`; beneath one, a call with `final_source = true` reads the entries of `final_source = false` — K5), a
call with options `o` reads and writes only entries keyed by `o`.  So in ANY history of streaming calls — any length, options in
any order — starting on cold caches, the k-th call returns

* the stream of the cache-free tree (`Src.strip`) if its options did not occur before, and
* the stream of the replay tree (`Src.warm o`: every outermost CachedSource replays the map the first call with `o` stored)
  otherwise —

always the same two answers per option, whatever happened in between (`runCalls_results`).  The two-call theorems about the
first and the second answer therefore speak about every call of every history.
-/
namespace Rs

/-- nothing is cached for these nodes under the options `o` -/
def ColdAt (σ : Store) (ids : List Nat) (o : Opts) : Prop := ∀ i ∈ ids, σ.get? (i, o) = none

theorem coldAt_sub (σ : Store) (a b : List Nat) (o : Opts) (h : ColdAt σ (a ++ b) o) : ColdAt σ a o ∧ ColdAt σ b o :=
  ⟨fun i hi => h i (List.mem_append_left _ hi), fun i hi => h i (List.mem_append_right _ hi)⟩

theorem coldAt_after (s : Src) (o o' : Opts) (σ : Store) (ids : List Nat) (h : ColdAt σ ids o') (hd : ∀ i ∈ ids, i ∉ s.ids) :
    ColdAt (s.stream o σ).2 ids o' := by
  intro i hi
  rw [Src.stream_store_other s o σ (i, o') (hd i hi)]
  exact h i hi

theorem cold_coldAt (σ : Store) (ids : List Nat) (h : Cold σ ids) (o : Opts) : ColdAt σ ids o := fun i hi => h i hi o

mutual
/-- no CachedSource beneath a ReplaceSource, anywhere in the tree -/
def Src.NoCR : Src → Prop
  | .concat cs => cs.NoCRs
  | .replace inner _ => inner.NoCached
  | .cached _ inner => inner.NoCR
  | _ => True
def SrcList.NoCRs : SrcList → Prop
  | .nil => True
  | .cons s r => s.NoCR ∧ r.NoCRs
end

mutual
theorem Src.noCR_cachedOK : ∀ (s : Src), s.NoCR → s.CachedOK
  | .raw .., _ | .rawStr .., _ | .rawBuf .., _ | .orig .., _ | .sms .., _ => trivial
  | .concat cs, h => by simp only [Src.NoCR] at h; simp only [Src.CachedOK]; exact SrcList.noCRs_cachedOKs cs h
  | .replace inner _, h => by simp only [Src.NoCR] at h; exact h
  | .cached _ _, _ => trivial
theorem SrcList.noCRs_cachedOKs : ∀ (l : SrcList), l.NoCRs → l.CachedOKs
  | .nil, _ => trivial
  | .cons s r, h => ⟨Src.noCR_cachedOK s h.1, SrcList.noCRs_cachedOKs r h.2⟩
end

mutual
/-- **a call with options `o` touches only entries keyed by `o`** -/
theorem Src.stream_store_opts : ∀ (s : Src) (o : Opts) (σ : Store) (k : Nat × Opts), s.NoCR → k.2 ≠ o → (s.stream o σ).2.get? k = σ.get? k
  | .raw .., _, _, _, _, _ | .rawStr .., _, _, _, _, _ | .rawBuf .., _, _, _, _, _ | .orig .., _, _, _, _, _ => rfl
  | .sms t name map origSrc inner remove, o, σ, k, _, _ => by simp only [Src.stream]; split <;> rfl
  | .concat .nil, _, _, _, _, _ => rfl
  | .concat (.cons s rest), o, σ, k, h, hk => by
    simp only [Src.NoCR, SrcList.NoCRs] at h
    cases hr : rest with
    | nil => simp only [Src.stream]; exact Src.stream_store_opts s o σ k h.1 hk
    | cons s2 rest2 =>
      simp only [Src.stream]
      rw [SrcList.streams_store_opts (.cons s2 rest2) o _ k (hr ▸ h.2) hk]
      exact Src.stream_store_opts s o σ k h.1 hk
  | .replace inner rs, o, σ, k, h, _ => by
    simp only [Src.NoCR] at h
    simp only [Src.stream]
    rw [(Src.stream_nc inner _ σ h).1]
  | .cached id inner, o, σ, k, h, hk => by
    simp only [Src.NoCR] at h
    simp only [Src.stream]
    split
    · rfl
    · rfl
    · simp only
      rw [get_insertNew_other _ (id, o) k _ (fun e => hk (by rw [← e]))]
      exact Src.stream_store_opts inner o σ k h hk
theorem SrcList.streams_store_opts : ∀ (l : SrcList) (o : Opts) (σ : Store) (k : Nat × Opts), l.NoCRs → k.2 ≠ o → (l.streams o σ).2.get? k = σ.get? k
  | .nil, _, _, _, _, _ => rfl
  | .cons s rest, o, σ, k, h, hk => by
    simp only [SrcList.streams]
    rw [SrcList.streams_store_opts rest o _ k h.2 hk]
    exact Src.stream_store_opts s o σ k h.1 hk
end

mutual
/-- the first call with options `o`: the stream of the cache-free tree, whatever is cached for other options -/
theorem Src.stream_stripO : ∀ (s : Src) (o : Opts) (σ : Store), s.NoCR → s.ids.Nodup → ColdAt σ s.ids o →
    (s.stream o σ).1 = (s.strip.stream o []).1
  | .raw .., _, _, _, _, _ | .rawStr .., _, _, _, _, _ | .rawBuf .., _, _, _, _, _ | .orig .., _, _, _, _, _ => rfl
  | .sms t name map origSrc inner remove, o, σ, _, _, _ => by simp only [Src.strip, Src.stream]; cases inner <;> rfl
  | .concat .nil, o, σ, _, _, _ => rfl
  | .concat (.cons s rest), o, σ, hk, hn, hc => by
    simp only [Src.NoCR, SrcList.NoCRs] at hk
    simp only [Src.ids, Src.cachedNodes, SrcList.cachedNodesL, List.map_append] at hn hc
    have hn1 := (List.nodup_append.1 hn).1
    have hn2 := (List.nodup_append.1 hn).2.1
    have hdisj := (List.nodup_append.1 hn).2.2
    have hc1 := (coldAt_sub _ _ _ _ hc).1
    have h1 := Src.stream_stripO s o σ hk.1 hn1 hc1
    cases hr : rest with
    | nil => simp only [Src.strip, SrcList.stripL, Src.stream]; exact h1
    | cons s2 rest2 =>
      have hc2 : ColdAt (s.stream o σ).2 (SrcList.cons s2 rest2).idsL o := by
        rw [← hr]; exact coldAt_after s _ _ σ _ (coldAt_sub _ _ _ _ hc).2 (fun i hi hmem => hdisj i hmem i hi rfl)
      have h2 := SrcList.streams_stripO (.cons s2 rest2) o (s.stream o σ).2 (hr ▸ hk.2) (hr ▸ hn2) hc2
      simp only [Src.strip, SrcList.stripL, Src.stream]
      have e := (SrcList.streams_nc (SrcList.cons s2.strip rest2.stripL) o (s.strip.stream o []).2 (SrcList.stripL_nc (.cons s2 rest2))).2
      simp only [SrcList.stripL] at h2
      rw [h1, h2, e]
  | .replace inner rs, o, σ, hk, _, _ => by
    simp only [Src.NoCR] at hk
    simp only [Src.strip, Src.stream]
    rw [Src.strip_of_nc inner hk, (Src.stream_nc inner _ σ hk).2]
  | .cached id inner, o, σ, hk, hn, hc => by
    simp only [Src.NoCR] at hk
    simp only [Src.ids, Src.cachedNodes, List.map_cons, List.nodup_cons] at hn hc
    simp only [Src.strip, Src.stream]
    rw [hc id (by simp)]
    simp only
    exact Src.stream_stripO inner o σ hk hn.2 (fun i hi => hc i (List.mem_cons_of_mem _ hi))
theorem SrcList.streams_stripO : ∀ (l : SrcList) (o : Opts) (σ : Store), l.NoCRs → l.idsL.Nodup → ColdAt σ l.idsL o →
    (l.streams o σ).1 = (l.stripL.streams o []).1
  | .nil, _, _, _, _, _ => rfl
  | .cons s rest, o, σ, hk, hn, hc => by
    simp only [SrcList.NoCRs] at hk
    simp only [SrcList.idsL, SrcList.cachedNodesL, List.map_append] at hn hc
    have hn1 := (List.nodup_append.1 hn).1
    have hn2 := (List.nodup_append.1 hn).2.1
    have hdisj := (List.nodup_append.1 hn).2.2
    have hc1 := (coldAt_sub _ _ _ _ hc).1
    have hc2 : ColdAt (s.stream o σ).2 rest.idsL o :=
      coldAt_after s _ _ σ _ (coldAt_sub _ _ _ _ hc).2 (fun i hi hmem => hdisj i hmem i hi rfl)
    simp only [SrcList.stripL, SrcList.streams]
    rw [Src.stream_stripO s o σ hk.1 hn1 hc1, SrcList.streams_stripO rest o _ hk.2 hn2 hc2]
    have e := (SrcList.streams_nc rest.stripL o (s.strip.stream o []).2 (SrcList.stripL_nc rest)).2
    rw [e]
end

mutual
/-- … and it leaves, for `o`, the entries a first call on cold caches writes -/
theorem Src.stream_fillsO : ∀ (s : Src) (o : Opts) (σ : Store), s.NoCR → s.ids.Nodup → ColdAt σ s.ids o → s.WarmFor (s.stream o σ).2 o
  | .raw .., _, _, _, _, _ | .rawStr .., _, _, _, _, _ | .rawBuf .., _, _, _, _, _ | .orig .., _, _, _, _, _ | .sms .., _, _, _, _, _ => trivial
  | .concat .nil, _, _, _, _, _ => trivial
  | .concat (.cons s rest), o, σ, hk, hn, hc => by
    simp only [Src.NoCR, SrcList.NoCRs] at hk
    simp only [Src.ids, Src.cachedNodes, SrcList.cachedNodesL, List.map_append] at hn hc
    have hn1 := (List.nodup_append.1 hn).1
    have hn2 := (List.nodup_append.1 hn).2.1
    have hdisj := (List.nodup_append.1 hn).2.2
    have hc1 := (coldAt_sub _ _ _ _ hc).1
    have h1 := Src.stream_fillsO s o σ hk.1 hn1 hc1
    cases hr : rest with
    | nil => simp only [Src.stream, Src.WarmFor, SrcList.WarmFors]; exact ⟨h1, trivial⟩
    | cons s2 rest2 =>
      have hc2 : ColdAt (s.stream o σ).2 (SrcList.cons s2 rest2).idsL o := by
        rw [← hr]; exact coldAt_after s _ _ σ _ (coldAt_sub _ _ _ _ hc).2 (fun i hi hmem => hdisj i hmem i hi rfl)
      have h2 := SrcList.streams_fillsO (.cons s2 rest2) o (s.stream o σ).2 (hr ▸ hk.2) (hr ▸ hn2) hc2
      simp only [Src.stream, Src.WarmFor, SrcList.WarmFors]
      exact ⟨Src.warmFor_mono s _ _ o (fun k v hv => SrcList.streams_store_mono (.cons s2 rest2) o _ k v hv) h1, h2⟩
  | .replace inner rs, o, σ, hk, _, _ => by simp only [Src.NoCR] at hk; exact hk
  | .cached id inner, o, σ, hk, hn, hc => by
    simp only [Src.NoCR] at hk
    simp only [Src.ids, Src.cachedNodes, List.map_cons, List.nodup_cons] at hn hc
    simp only [Src.WarmFor, Src.stream]
    rw [hc id (by simp)]
    simp only
    have hstill : (inner.stream o σ).2.get? (id, o) = none := by
      rw [Src.stream_store_other inner _ σ (id, o) hn.1]; exact hc id (by simp)
    rw [insertNew_self _ _ _ hstill]
    rw [Src.stream_stripO inner o σ hk hn.2 (fun i hi => hc i (List.mem_cons_of_mem _ hi))]
theorem SrcList.streams_fillsO : ∀ (l : SrcList) (o : Opts) (σ : Store), l.NoCRs → l.idsL.Nodup → ColdAt σ l.idsL o → l.WarmFors (l.streams o σ).2 o
  | .nil, _, _, _, _, _ => trivial
  | .cons s rest, o, σ, hk, hn, hc => by
    simp only [SrcList.NoCRs] at hk
    simp only [SrcList.idsL, SrcList.cachedNodesL, List.map_append] at hn hc
    have hn1 := (List.nodup_append.1 hn).1
    have hn2 := (List.nodup_append.1 hn).2.1
    have hdisj := (List.nodup_append.1 hn).2.2
    have hc1 := (coldAt_sub _ _ _ _ hc).1
    have hc2 : ColdAt (s.stream o σ).2 rest.idsL o :=
      coldAt_after s _ _ σ _ (coldAt_sub _ _ _ _ hc).2 (fun i hi hmem => hdisj i hmem i hi rfl)
    simp only [SrcList.streams, SrcList.WarmFors]
    exact ⟨Src.warmFor_mono s _ _ o (fun k v hv => SrcList.streams_store_mono rest o _ k v hv) (Src.stream_fillsO s o σ hk.1 hn1 hc1),
      SrcList.streams_fillsO rest o _ hk.2 hn2 hc2⟩
end

/-! ## histories -/

/-- a history of streaming calls on one tree, each with its own options, threading the store -/
def runCalls (s : Src) : List Opts → Store → List SResult × Store
  | [], σ => ([], σ)
  | o :: os, σ => (((s.stream o σ).1 :: (runCalls s os (s.stream o σ).2).1), (runCalls s os (s.stream o σ).2).2)

/-- the answer of a call with options `o`: the replay tree's stream if `o` was used before, the cache-free tree's otherwise -/
def answerOf (s : Src) (seen : List Opts) (o : Opts) : SResult :=
  if o ∈ seen then ((s.warm o).stream o []).1 else (s.strip.stream o []).1

/-- the store after the options `seen` have been used: warm for them, cold for the others -/
def HistInv (s : Src) (seen : List Opts) (σ : Store) : Prop :=
  ∀ o, (o ∈ seen → s.WarmFor σ o) ∧ (o ∉ seen → ColdAt σ s.ids o)

theorem histInv_step (s : Src) (hk : s.NoCR) (hn : s.ids.Nodup) (seen : List Opts) (σ : Store) (h : HistInv s seen σ) (o : Opts) :
    (s.stream o σ).1 = answerOf s seen o ∧ HistInv s (seen ++ [o]) (s.stream o σ).2 := by
  by_cases hs : o ∈ seen
  · have hw := (h o).1 hs
    have e := Src.stream_warm s o σ hw
    refine ⟨by rw [e]; simp only [answerOf, hs, if_true], ?_⟩
    rw [e]
    intro o'
    simp only [List.mem_append, List.mem_singleton]
    constructor
    · rintro (h1 | rfl)
      · exact (h o').1 h1
      · exact hw
    · intro hno
      exact (h o').2 (fun hm => hno (Or.inl hm))
  · have hc := (h o).2 hs
    refine ⟨by rw [Src.stream_stripO s o σ hk hn hc]; simp only [answerOf, hs, if_false], ?_⟩
    intro o'
    simp only [List.mem_append, List.mem_singleton]
    constructor
    · rintro (h1 | rfl)
      · exact Src.warmFor_mono s _ _ o' (fun k v hv => Src.stream_store_mono s o σ k v hv) ((h o').1 h1)
      · exact Src.stream_fillsO s o' σ hk hn hc
    · intro hno
      have hne : o' ≠ o := fun e => hno (Or.inr e)
      intro i hi
      rw [Src.stream_store_opts s o σ (i, o') hk hne]
      exact (h o').2 (fun hm => hno (Or.inl hm)) i hi

theorem runCalls_from (s : Src) (hk : s.NoCR) (hn : s.ids.Nodup) : ∀ (calls : List Opts) (seen : List Opts) (σ : Store), HistInv s seen σ →
    ∀ k o, calls[k]? = some o → (runCalls s calls σ).1[k]? = some (answerOf s (seen ++ calls.take k) o) := by
  intro calls
  induction calls with
  | nil => intro seen σ _ k o h; simp at h
  | cons c cs ih =>
    intro seen σ hinv k o h
    obtain ⟨a1, a2⟩ := histInv_step s hk hn seen σ hinv c
    cases k with
    | zero =>
      simp only [List.getElem?_cons_zero, Option.some.injEq] at h
      subst h
      simp only [runCalls, List.getElem?_cons_zero, List.take_zero, List.append_nil, a1]
    | succ k =>
      simp only [List.getElem?_cons_succ] at h
      have := ih (seen ++ [c]) _ a2 k o h
      simp only [runCalls, List.getElem?_cons_succ, List.take_succ_cons]
      rw [this, List.append_assoc]
      rfl

/-- **every call of every history**: on a tree with no CachedSource beneath a ReplaceSource, starting on cold caches, the `k`-th
call of any history of streaming calls returns the stream of the cache-free tree if its options did not occur earlier in the
history, and the stream of the replay tree for its options otherwise -/
theorem runCalls_results (s : Src) (hk : s.NoCR) (hn : s.ids.Nodup) (σ : Store) (hc : Cold σ s.ids) (calls : List Opts) :
    ∀ k o, calls[k]? = some o → (runCalls s calls σ).1[k]? = some (answerOf s (calls.take k) o) := by
  intro k o h
  have := runCalls_from s hk hn calls [] σ (fun o' => ⟨fun hm => (by cases hm), fun _ => cold_coldAt σ _ hc o'⟩) k o h
  simpa using this

end Rs
