import RsModel.Lemmas.StrictIn
import RsModel.Lemmas.ModeSorted
import RsModel.Lemmas.ReplaceOrig
/-!
# The text-less stream delivers its chunks at strictly increasing positions of characters (C11, map clause)

`Inc T lo hi evs`: the chunks of `evs`, in delivery order, stand at the positions of characters `k₁ < k₂ < …` of `T`
(`adv startPos (T.take kᵢ)`), all in `[lo, hi)`.  With `hi ≤ |T|` this says at once that the positions are strictly increasing and
that each lies strictly before the end of `T` — for every chunk, mapped or not.  It is kept by every node kind in text-less mode
when the attached maps are strictly sorted, and by the encoder's selection (a sublist); so the segments `map()` writes are
strictly increasing.
-/
namespace Rs

def IncP (T : Text) : Nat → Nat → List (Nat × Nat) → Prop
  | _, _, [] => True
  | lo, hi, p :: ps => ∃ k, lo ≤ k ∧ k < hi ∧ adv startPos (T.take k) = ⟨p.1, p.2⟩ ∧ IncP T (k + 1) hi ps

/-- generated positions of the chunks, in delivery order -/
def posOf (evs : List Ev) : List (Nat × Nat) := (chunkMs evs).map fun m => (m.gl, m.gc)

def Inc (T : Text) (lo hi : Nat) (evs : List Ev) : Prop := IncP T lo hi (posOf evs)

theorem posOf_append (a b : List Ev) : posOf (a ++ b) = posOf a ++ posOf b := by simp [posOf, chunkMs_app]

theorem posOf_keys : ∀ (evs : List Ev), posOf evs = (evsKeys evs).map (·.2) := by
  intro evs
  induction evs with
  | nil => rfl
  | cons e es ih =>
    cases e with
    | chunk t m => simp only [posOf, chunkMs, List.map_cons, evsKeys, List.filterMap_cons, Ev.key] at ih ⊢; rw [ih]
    | source i s c => simp only [posOf, chunkMs, evsKeys, List.filterMap_cons, Ev.key] at ih ⊢; exact ih
    | name i n => simp only [posOf, chunkMs, evsKeys, List.filterMap_cons, Ev.key] at ih ⊢; exact ih

theorem incP_mono (T : Text) : ∀ (ps : List (Nat × Nat)) (lo hi lo' hi' : Nat), lo' ≤ lo → hi ≤ hi' → IncP T lo hi ps → IncP T lo' hi' ps := by
  intro ps
  induction ps with
  | nil => intro _ _ _ _ _ _ _; trivial
  | cons p ps ih =>
    intro lo hi lo' hi' h1 h2 h
    obtain ⟨k, a, b, c, d⟩ := h
    exact ⟨k, by omega, by omega, c, ih _ _ _ _ (Nat.le_refl _) h2 d⟩

theorem incP_append (T : Text) : ∀ (a b : List (Nat × Nat)) (lo mid hi : Nat), lo ≤ mid → mid ≤ hi → IncP T lo mid a → IncP T mid hi b →
    IncP T lo hi (a ++ b) := by
  intro a
  induction a with
  | nil => intro b lo mid hi h1 _ _ hb; exact incP_mono T b mid hi lo hi h1 (Nat.le_refl _) hb
  | cons p ps ih =>
    intro b lo mid hi _ hm ha hb
    obtain ⟨k, a1, a2, a3, a4⟩ := ha
    exact ⟨k, a1, by omega, a3, ih b _ mid hi (by omega) hm a4 hb⟩

theorem incP_sublist (T : Text) : ∀ (ps qs : List (Nat × Nat)), qs.Sublist ps → ∀ (lo hi : Nat), IncP T lo hi ps → IncP T lo hi qs := by
  intro ps qs h
  induction h with
  | slnil => intro _ _ _; trivial
  | cons a _ ih =>
    intro lo hi hp
    obtain ⟨k, a1, a2, a3, a4⟩ := hp
    exact incP_mono T _ (k + 1) hi lo hi (by omega) (Nat.le_refl _) (ih _ _ a4)
  | cons_cons a _ ih =>
    intro lo hi hp
    obtain ⟨k, a1, a2, a3, a4⟩ := hp
    exact ⟨k, a1, a2, a3, ih _ _ a4⟩

/-- the text may grow behind the window -/
theorem incP_ext (T B : Text) : ∀ (ps : List (Nat × Nat)) (lo hi : Nat), hi ≤ T.length → IncP T lo hi ps → IncP (T ++ B) lo hi ps := by
  intro ps
  induction ps with
  | nil => intro _ _ _ _; trivial
  | cons p ps ih =>
    intro lo hi hh h
    obtain ⟨k, a1, a2, a3, a4⟩ := h
    exact ⟨k, a1, a2, by rw [List.take_append_of_le_length (by omega)]; exact a3, ih _ _ hh a4⟩

instance : DecidableRel mlt := fun a b => by unfold mlt; infer_instance

def plt (a b : Nat × Nat) : Prop := a.1 < b.1 ∨ (a.1 = b.1 ∧ a.2 < b.2)

theorem take_pos_mono (T : Text) (k k' : Nat) (h : k ≤ k') : posLe (adv startPos (T.take k)) (adv startPos (T.take k')) := by
  have : T.take k' = T.take k ++ (T.take k').drop k := by
    have e := (List.take_append_drop k (T.take k')).symm
    rw [List.take_take, Nat.min_eq_left h] at e
    exact e
  rw [this, adv_append]
  exact adv_ge _ _

theorem take_pos_lt (T : Text) (k k' : Nat) (h : k < k') (hk : k' ≤ T.length) : posLt (adv startPos (T.take k)) (adv startPos (T.take k')) := by
  have := charPos_lt_end' startPos (T.take k') k (by simp; omega)
  rw [List.take_take, Nat.min_eq_left (Nat.le_of_lt h)] at this
  exact this

/-- positions of an increasing list are strictly increasing -/
theorem incP_lower (T : Text) : ∀ (ps : List (Nat × Nat)) (lo hi : Nat), hi ≤ T.length → IncP T lo hi ps →
    ∀ p ∈ ps, ∃ k, lo ≤ k ∧ k < hi ∧ adv startPos (T.take k) = ⟨p.1, p.2⟩ := by
  intro ps
  induction ps with
  | nil => intro _ _ _ _ p hp; cases hp
  | cons q qs ih =>
    intro lo hi hh h p hp
    obtain ⟨k, a1, a2, a3, a4⟩ := h
    rcases List.mem_cons.1 hp with rfl | hp
    · exact ⟨k, a1, a2, a3⟩
    · obtain ⟨k', b1, b2, b3⟩ := ih _ _ hh a4 p hp
      exact ⟨k', by omega, b2, b3⟩

theorem incP_pairwise (T : Text) : ∀ (ps : List (Nat × Nat)) (lo hi : Nat), hi ≤ T.length → IncP T lo hi ps → ps.Pairwise plt := by
  intro ps
  induction ps with
  | nil => intro _ _ _ _; exact List.Pairwise.nil
  | cons q qs ih =>
    intro lo hi hh h
    obtain ⟨k, a1, a2, a3, a4⟩ := h
    refine List.Pairwise.cons ?_ (ih _ _ hh a4)
    intro p hp
    obtain ⟨k', b1, b2, b3⟩ := incP_lower T qs _ _ hh a4 p hp
    have := take_pos_lt T k k' (by omega) (by omega)
    rw [a3, b3] at this
    exact this

/-- strictly increasing positions of characters are visited in the order of the characters -/
theorem incP_of_pairwise (T : Text) : ∀ (ps : List (Nat × Nat)) (lo : Nat), ps.Pairwise plt →
    (∀ p ∈ ps, ∃ k, lo ≤ k ∧ k < T.length ∧ adv startPos (T.take k) = ⟨p.1, p.2⟩) → IncP T lo T.length ps := by
  intro ps
  induction ps with
  | nil => intro _ _ _; trivial
  | cons q qs ih =>
    intro lo hp hk
    obtain ⟨k, a1, a2, a3⟩ := hk q (by simp)
    rw [List.pairwise_cons] at hp
    refine ⟨k, a1, a2, a3, ih (k + 1) hp.2 ?_⟩
    intro p hpm
    obtain ⟨k', b1, b2, b3⟩ := hk p (by simp [hpm])
    refine ⟨k', ?_, b2, b3⟩
    -- `q` before `p` in position, so `k < k'`
    rcases Nat.lt_or_ge k k' with g | g
    · omega
    · exfalso
      have hle := take_pos_mono T k' k g
      rw [a3, b3] at hle
      have hlt := hp.1 p hpm
      rcases hlt with g1 | g1 <;> rcases hle with g2 | g2 <;> simp only at g1 g2 <;> omega


theorem inc_nil (T : Text) (lo hi : Nat) : Inc T lo hi [] := trivial
theorem inc_noChunk (T : Text) (lo hi : Nat) (evs : List Ev) (h : ∀ e ∈ evs, e.isChunk = false) : Inc T lo hi evs := by
  unfold Inc posOf; rw [chunkMs_noChunk evs h]; trivial
theorem posOf_noChunk (evs : List Ev) (h : ∀ e ∈ evs, e.isChunk = false) : posOf evs = [] := by
  unfold posOf; rw [chunkMs_noChunk evs h]; rfl

/-! ## leaves, text-less mode, columns = true -/

/-- **SourceMapSource, text-less mode**: a strictly sorted map whose segments lie inside the (ASCII) text -/
theorem streamSM_final_inc (t : Text) (sm : SMap) (ha : IsAscii t) (hl : t.length ≤ USIZE_MAX) (hm : MapInside t sm)
    (hs : (decode sm.mappings).Pairwise mlt) : Inc t 0 t.length (streamSM t sm ⟨true, true⟩).evs := by
  simp only [streamSM]
  unfold streamSMFinal
  dsimp only
  split
  · exact inc_nil _ _ _
  · unfold Inc
    rw [posOf_append, posOf_append, posOf_noChunk _ (sourceEvs_noChunk sm), posOf_noChunk _ (nameEvs_noChunk sm)]
    simp only [List.nil_append]
    apply incP_of_pairwise
    · unfold posOf
      rw [List.pairwise_map]
      exact List.Pairwise.sublist (smFinalGo_sublist _ _ _) hs
    · intro p hp
      unfold posOf at hp
      obtain ⟨m, hm1, rfl⟩ := List.mem_map.1 hp
      obtain ⟨tt, htt⟩ := chunkMs_mem_ev _ m hm1
      obtain ⟨k, hk, e⟩ := smFinalGo_strictA t ha hl _ 0 hm tt m htt
      exact ⟨k, Nat.zero_le _, hk, e⟩

theorem origTok_inc : ∀ (toks : List Text), (∀ x ∈ toks, TokOK x) → (∀ x ∈ toks, x ≠ []) → ∀ (pre : Text) (l c : Nat),
    adv startPos pre = ⟨l, c⟩ →
    IncP (pre ++ toks.flatten) pre.length (pre ++ toks.flatten).length (posOf (origTokChunks true l c toks).1) := by
  intro toks
  induction toks with
  | nil => intro _ _ pre l c _; simp [origTokChunks, posOf, chunkMs, IncP]
  | cons tok toks ih =>
    intro hok hne pre l c hp
    obtain ⟨s, hs, hcase⟩ := hok tok (by simp)
    have hrest : ∀ x ∈ toks, TokOK x := fun x hx => hok x (by simp [hx])
    have hne' : ∀ x ∈ toks, x ≠ [] := fun x hx => hne x (by simp [hx])
    have htne : 0 < tok.length := List.length_pos_iff.2 (hne tok (by simp))
    simp only [origTokChunks, if_true, List.flatten_cons]
    rw [posOf_append, ← List.append_assoc]
    -- the rest, whatever the next position is
    have hnextInc : ∀ l' c', adv startPos (pre ++ tok) = ⟨l', c'⟩ →
        IncP (pre ++ tok ++ toks.flatten) (pre.length + 1) (pre ++ tok ++ toks.flatten).length (posOf (origTokChunks true l' c' toks).1) := by
      intro l' c' hn
      have := ih hrest hne' (pre ++ tok) l' c' hn
      exact incP_mono _ _ _ _ _ _ (by simp; omega) (Nat.le_refl _) this
    have hfirst : ∀ (rest : List (Nat × Nat)), IncP (pre ++ tok ++ toks.flatten) (pre.length + 1) (pre ++ tok ++ toks.flatten).length rest →
        IncP (pre ++ tok ++ toks.flatten) pre.length (pre ++ tok ++ toks.flatten).length ((l, c) :: rest) := by
      intro rest hr
      refine ⟨pre.length, Nat.le_refl _, by simp; omega, ?_, hr⟩
      rw [List.append_assoc, List.take_left']
      · exact hp
      · rfl
    rcases hcase with rfl | rfl
    · have hnl := endsWithNL_noNL tok hs
      simp only [hnl, Bool.false_and, Bool.false_eq_true, if_false]
      have hnext : adv startPos (pre ++ tok) = ⟨l, c + tok.length⟩ := by rw [adv_append, hp, adv_noNL tok _ hs]
      have := hfirst _ (hnextInc _ _ hnext)
      simpa [posOf, chunkMs] using this
    · simp only [endsWithNL_snoc, Bool.true_and, if_true]
      have hnext : adv startPos (pre ++ (s ++ [NL])) = ⟨l + 1, 0⟩ := by rw [adv_append, hp, adv_line s _ hs]
      by_cases h1 : ((s ++ [NL]).length == 1) = true
      · simp only [h1, if_true]
        have := hnextInc _ _ hnext
        simp only [posOf, chunkMs, List.map_nil, List.nil_append]
        exact incP_mono _ _ _ _ _ _ (by omega) (Nat.le_refl _) this
      · simp only [h1, Bool.false_eq_true, if_false]
        have := hfirst _ (hnextInc _ _ hnext)
        simpa [posOf, chunkMs] using this

/-- **OriginalSource, text-less mode** -/
theorem streamOriginal_final_inc (t name : Text) : Inc t 0 t.length (streamOriginal t name ⟨true, true⟩).evs := by
  have := origTok_inc (tokens t) (tokens_ok t) (tokens_ne t) [] 1 0 rfl
  rw [tokens_join] at this
  simp only [List.nil_append, List.length_nil] at this
  simp only [streamOriginal, if_true]
  unfold Inc
  simpa [posOf, chunkMs] using this


/-! ## ConcatSource (either mode) -/

theorem shift_take (st : CSt) (P : Pos) (hr : FRel st P) (gpre Tc : Text) (hP : adv startPos gpre = P) (k gl gc : Nat)
    (e : adv startPos (Tc.take k) = ⟨gl, gc⟩) :
    adv startPos ((gpre ++ Tc).take (gpre.length + k)) = ⟨gl + st.lineOff, if (gl == 1) = true then gc + st.colOff else gc⟩ := by
  rw [List.take_length_add_append, adv_append, hP, adv_shift _ P, e]
  obtain ⟨r1, r2⟩ := hr
  simp only [Pos.mk.injEq]
  have hgl : 1 ≤ gl := by
    have e1 : startPos.line = 1 := rfl
    have := adv_ge (Tc.take k) startPos
    rw [e] at this
    rcases this with g | g <;> simp only at g <;> omega
  refine ⟨by omega, ?_⟩
  by_cases h1 : gl = 1 <;> simp [h1, r2]

theorem posOf_cons_chunk (t : Option Text) (m : Mapping) (es : List Ev) : posOf (.chunk t m :: es) = (m.gl, m.gc) :: posOf es := rfl
theorem posOf_cons_source (i : Nat) (s : Text) (c : Option Text) (es : List Ev) : posOf (.source i s c :: es) = posOf es := rfl
theorem posOf_cons_name (i : Nat) (n : Text) (es : List Ev) : posOf (.name i n :: es) = posOf es := rfl

theorem posOf_concatEv_chunk (final : Bool) (st : CSt) (text : Option Text) (m : Mapping) :
    posOf (concatEv final st (.chunk text m)).2 =
      (if (st.needClose && (m.gl != 1 || m.gc != 0)) = true then [(st.lineOff + 1, st.colOff)] else [])
        ++ [(m.gl + st.lineOff, if (m.gl == 1) = true then m.gc + st.colOff else m.gc)] := by
  unfold posOf
  rw [concatEv_chunk_ms]
  split <;> rfl

theorem posOf_concatEv_decl (final : Bool) (st : CSt) (e : Ev) (he : e.isChunk = false) : posOf (concatEv final st e).2 = [] := by
  unfold posOf; rw [(concatEv_decl_ms final st e he).1]; rfl

theorem frel_chunk (final : Bool) (st : CSt) (P : Pos) (hr : FRel st P) (t : Option Text) (m : Mapping) : FRel (concatEv final st (.chunk t m)).1 P := by
  rw [concatEv_chunk_st]; exact hr

theorem frel_decl (final : Bool) (st : CSt) (P : Pos) (hr : FRel st P) (e : Ev) (he : e.isChunk = false) : FRel (concatEv final st e).1 P := by
  obtain ⟨_, _, d3, d4, _⟩ := concatEv_decl_ms final st e he
  exact ⟨by rw [d3]; exact hr.1, by rw [d4]; exact hr.2⟩

/-- no close pending: the child's chunks are delivered shifted, at the same characters -/
theorem concatEvs_incA (final : Bool) (P : Pos) (gpre Tc : Text) (hP : adv startPos gpre = P) : ∀ (evs : List Ev) (st : CSt) (lo hi : Nat),
    FRel st P → st.needClose = false → hi ≤ Tc.length → IncP Tc lo hi (posOf evs) →
    IncP (gpre ++ Tc) (gpre.length + lo) (gpre.length + hi) (posOf (concatEvs final st evs).2) := by
  intro evs
  induction evs with
  | nil => intro st lo hi _ _ _ _; trivial
  | cons e es ih =>
    intro st lo hi hr hnc hh h
    simp only [concatEvs, posOf_append]
    cases e with
    | chunk t m =>
      rw [posOf_cons_chunk] at h
      obtain ⟨k, a1, a2, a3, a4⟩ := h
      rw [posOf_concatEv_chunk, hnc]
      simp only [Bool.false_and, Bool.false_eq_true, if_false, List.nil_append, List.singleton_append]
      refine ⟨gpre.length + k, by omega, by omega, shift_take st P hr gpre Tc hP k m.gl m.gc a3, ?_⟩
      have := ih (concatEv final st (.chunk t m)).1 (k + 1) hi (frel_chunk final st P hr t m) (by rw [concatEv_chunk_st]) hh a4
      exact incP_mono _ _ _ _ _ _ (by omega) (Nat.le_refl _) this
    | source i s c =>
      rw [posOf_concatEv_decl final st _ rfl, List.nil_append]
      exact ih _ lo hi (frel_decl final st P hr _ rfl) (by rw [(concatEv_decl_ms final st (.source i s c) rfl).2.1]; exact hnc) hh (by simpa [posOf_cons_source] using h)
    | name i n =>
      rw [posOf_concatEv_decl final st _ rfl, List.nil_append]
      exact ih _ lo hi (frel_decl final st P hr _ rfl) (by rw [(concatEv_decl_ms final st (.name i n) rfl).2.1]; exact hnc) hh (by simpa [posOf_cons_name] using h)

/-- a close may be pending: it is delivered at the child's first character, and only when the child's first chunk stands later -/
theorem concatEvs_incB (final : Bool) (P : Pos) (gpre Tc : Text) (hP : adv startPos gpre = P) : ∀ (evs : List Ev) (st : CSt) (hi : Nat),
    FRel st P → hi ≤ Tc.length → IncP Tc 0 hi (posOf evs) →
    IncP (gpre ++ Tc) gpre.length (gpre.length + hi) (posOf (concatEvs final st evs).2) := by
  intro evs
  induction evs with
  | nil => intro st hi _ _ _; trivial
  | cons e es ih =>
    intro st hi hr hh h
    simp only [concatEvs, posOf_append]
    cases e with
    | chunk t m =>
      rw [posOf_cons_chunk] at h
      obtain ⟨k, a1, a2, a3, a4⟩ := h
      have hrest := concatEvs_incA final P gpre Tc hP es (concatEv final st (.chunk t m)).1 (k + 1) hi (frel_chunk final st P hr t m)
        (by rw [concatEv_chunk_st]) hh a4
      rw [posOf_concatEv_chunk]
      by_cases hcl : (st.needClose && (m.gl != 1 || m.gc != 0)) = true
      · simp only [hcl, if_true, List.singleton_append, List.cons_append, List.nil_append]
        -- the chunk does not stand at the child's first character
        have hk0 : 1 ≤ k := by
          rcases Nat.eq_zero_or_pos k with h0 | h0
          · exfalso
            subst h0
            simp only [List.take_zero, adv] at a3
            have e1 : m.gl = 1 := by have := congrArg Pos.line a3; simpa [startPos] using this.symm
            have e2 : m.gc = 0 := by have := congrArg Pos.col a3; simpa [startPos] using this.symm
            simp [e1, e2] at hcl
          · exact h0
        refine ⟨gpre.length, Nat.le_refl _, by omega, ?_, gpre.length + k, by omega, by omega, shift_take st P hr gpre Tc hP k m.gl m.gc a3, ?_⟩
        · rw [List.take_left' rfl, hP]
          obtain ⟨r1, r2⟩ := hr
          cases P; simp only [Pos.mk.injEq] at r1 r2 ⊢; omega
        · exact incP_mono _ _ _ _ _ _ (by omega) (Nat.le_refl _) hrest
      · simp only [hcl, Bool.false_eq_true, if_false, List.nil_append, List.singleton_append]
        exact ⟨gpre.length + k, by omega, by omega, shift_take st P hr gpre Tc hP k m.gl m.gc a3,
          incP_mono _ _ _ _ _ _ (by omega) (Nat.le_refl _) hrest⟩
    | source i s c =>
      rw [posOf_concatEv_decl final st _ rfl, List.nil_append]
      exact ih _ hi (frel_decl final st P hr _ rfl) hh (by simpa [posOf_cons_source] using h)
    | name i n =>
      rw [posOf_concatEv_decl final st _ rfl, List.nil_append]
      exact ih _ hi (frel_decl final st P hr _ rfl) hh (by simpa [posOf_cons_name] using h)

theorem posOf_noChunk' : ∀ (evs : List Ev), hasChunk evs = false → posOf evs = [] := by
  intro evs
  induction evs with
  | nil => intro _; rfl
  | cons e es ih =>
    intro h
    cases e with
    | chunk t m => simp [hasChunk] at h
    | source i s c => rw [posOf_cons_source]; exact ih (by simpa [hasChunk] using h)
    | name i n => rw [posOf_cons_name]; exact ih (by simpa [hasChunk] using h)

theorem concatEvs_noChunk_pos (final : Bool) : ∀ (evs : List Ev) (st : CSt), hasChunk evs = false → posOf (concatEvs final st evs).2 = [] := by
  intro evs
  induction evs with
  | nil => intro st _; rfl
  | cons e es ih =>
    intro st h
    simp only [concatEvs, posOf_append]
    cases e with
    | chunk t m => simp [hasChunk] at h
    | source i s c => rw [posOf_concatEv_decl final st _ rfl, List.nil_append]; exact ih _ (by simpa [hasChunk] using h)
    | name i n => rw [posOf_concatEv_decl final st _ rfl, List.nil_append]; exact ih _ (by simpa [hasChunk] using h)

theorem concatChild_snd (final : Bool) (st : CSt) (c : SResult) :
    (concatChild final st c).2 = (concatEvs final (childStart st) c.evs).2 ++
      (if ((concatEvs final (childStart st) c.evs).1.needClose && (c.info.line != 1 || c.info.col != 0)) = true
        then [Ev.chunk none ⟨(concatEvs final (childStart st) c.evs).1.lineOff + 1, (concatEvs final (childStart st) c.evs).1.colOff, none⟩] else []) := rfl

theorem concatChild_inc (final : Bool) (st : CSt) (gpre Tc : Text) (c : SResult) (hr : FRel st (adv startPos gpre)) (hf : FinOK Tc c)
    (hi : IncP Tc 0 Tc.length (posOf c.evs)) :
    IncP (gpre ++ Tc) gpre.length (gpre ++ Tc).length (posOf (concatChild final st c).2) := by
  have hr0 : FRel (childStart st) (adv startPos gpre) := hr
  obtain ⟨s1, s2, s3, _, _⟩ := concatEvs_state final c.evs (childStart st)
  have hB := concatEvs_incB final _ gpre Tc rfl c.evs (childStart st) Tc.length hr0 (Nat.le_refl _) hi
  have hlen : (gpre ++ Tc).length = gpre.length + Tc.length := by simp
  rw [concatChild_snd, posOf_append, hlen]
  by_cases hch : hasChunk c.evs = true
  · -- the child delivered a chunk: no close at its end
    have hnc : (concatEvs final (childStart st) c.evs).1.needClose = false := by rw [s3]; simp [hch]
    rw [hnc]
    simp only [Bool.false_and, Bool.false_eq_true, if_false]
    simpa [posOf, chunkMs] using hB
  · have hch' : hasChunk c.evs = false := by simpa using hch
    have hnil := concatEvs_noChunk_pos final c.evs (childStart st) hch'
    rw [hnil, List.nil_append]
    split
    · rename_i hcl
      -- a close at the child's first character: the child has text
      simp only [Bool.and_eq_true] at hcl
      have hne : 0 < Tc.length := by
        rcases Nat.eq_zero_or_pos Tc.length with h0 | h0
        · exfalso
          have : Tc = [] := List.length_eq_zero_iff.1 h0
          have hinfo := hf.2
          rw [this] at hinfo
          simp only [adv] at hinfo
          have := hcl.2
          rw [hinfo] at this
          simp [startPos] at this
        · exact h0
      simp only [posOf, chunkMs, List.map_cons, List.map_nil]
      refine ⟨gpre.length, Nat.le_refl _, by omega, ?_, trivial⟩
      rw [List.take_left' rfl, s1, s2]
      obtain ⟨r1, r2⟩ := hr
      have e1 : (childStart st).lineOff = st.lineOff := rfl
      have e2 : (childStart st).colOff = st.colOff := rfl
      rw [e1, e2]
      cases hh : adv startPos gpre
      rw [hh] at r1 r2
      simp only [Pos.mk.injEq] at r1 r2 ⊢; omega
    · trivial

/-- children paired with their texts, each delivering its chunks at increasing characters -/
inductive IncAll : List SResult → List Text → Prop where
  | nil : IncAll [] []
  | cons (r : SResult) (T : Text) (rs : List SResult) (Ts : List Text) : FinOK T r → IncP T 0 T.length (posOf r.evs) → IncAll rs Ts → IncAll (r :: rs) (T :: Ts)

theorem concatGo_inc (final : Bool) : ∀ (cs : List SResult) (Ts : List Text), IncAll cs Ts → ∀ (st : CSt) (gpre : Text),
    FRel st (adv startPos gpre) →
    IncP (gpre ++ Ts.flatten) gpre.length (gpre ++ Ts.flatten).length (posOf (concatGo final st cs).2) := by
  intro cs Ts h
  induction h with
  | nil => intro st gpre _; trivial
  | cons r T rs Ts hf hi _ ih =>
    intro st gpre hrel
    obtain ⟨_, b⟩ := concatChild_fin final st _ gpre T r hrel rfl hf
    simp only [concatGo, List.flatten_cons, posOf_append]
    rw [← List.append_assoc]
    apply incP_append _ _ _ gpre.length (gpre ++ T).length _ (by simp) (by simp)
    · exact incP_ext _ _ _ _ _ (Nat.le_refl _) (concatChild_inc final st gpre T r hrel hf hi)
    · exact ih _ (gpre ++ T) b

/-- **ConcatSource, either mode**: children delivering at increasing characters of their texts give a stream delivering at
increasing characters of the concatenation -/
theorem concatStream_inc (final : Bool) (cs : List SResult) (Ts : List Text) (h : IncAll cs Ts) :
    Inc Ts.flatten 0 Ts.flatten.length (concatStream final cs).evs := by
  have := concatGo_inc final cs Ts h {} [] ⟨rfl, rfl⟩
  simpa [concatStream, Inc] using this


/-! ## a normal-mode stream honouring C02 whose chunks all carry text (ReplaceSource) -/

theorem incP_of_posOK : ∀ (evs : List Ev) (pre : Text), posOKT pre evs → evsTL evs = false → AllNEc evs →
    IncP (pre ++ evsText evs) pre.length (pre ++ evsText evs).length (posOf evs) := by
  intro evs
  induction evs with
  | nil => intro pre _ _ _; trivial
  | cons e es ih =>
    intro pre hp hTL hne
    have hTLs : evsTL es = false := by simp only [evsTL_cons, Bool.or_eq_false_iff] at hTL; exact hTL.2
    have hnes : AllNEc es := fun t' m' h' => hne t' m' (by simp [h'])
    rw [evsText_cons]
    cases e with
    | chunk t0 m0 =>
      cases t0 with
      | none => simp [evsTL_cons, Ev.textless] at hTL
      | some t0 =>
        simp only [posOKT] at hp
        simp only [Ev.text]
        rw [posOf_cons_chunk]
        have hpos : 0 < t0.length := List.length_pos_iff.2 (hne t0 m0 (by simp))
        refine ⟨pre.length, Nat.le_refl _, by simp; omega, ?_, ?_⟩
        · rw [List.take_left' rfl]; exact hp.1.symm
        · have := ih (pre ++ t0) hp.2 hTLs hnes
          rw [List.append_assoc] at this
          exact incP_mono _ _ _ _ _ _ (by simp; omega) (Nat.le_refl _) this
    | source i s c =>
      simp only [Ev.text, List.nil_append]
      exact ih pre hp hTLs hnes
    | name i n =>
      simp only [Ev.text, List.nil_append]
      exact ih pre hp hTLs hnes

theorem inc_normal (r : SResult) (hp : PosOK r) (hTL : evsTL r.evs = false) (hne : AllNEc r.evs) :
    Inc (evsText r.evs) 0 (evsText r.evs).length r.evs := by
  have := incP_of_posOK r.evs [] hp.1 hTL hne
  simpa [Inc] using this

theorem replaceStream_allNE (sorted : List Repl) (inner : SResult) : AllNEc (replaceStream sorted inner).evs := by
  simp only [replaceStream]
  exact allNEc_append _ _ (rEvs_ne _ _) (rRemainder_ne _ _ (lines_ne _ (lines_of_splitLines _)) _ _)

/-! ## the combinator delivers its chunks where the outer splitter delivers them -/

theorem streamCombined_posOf (t : Text) (sm : SMap) (n : Text) (os : Option Text) (im : SMap) (rm : Bool) (o : Opts) :
    posOf (streamCombined t sm n os im rm o).evs = posOf (streamSM t sm o).evs := by
  simp only [streamCombined, posOf_keys, combFold_keys]

/-! ## every tree of the domain of C03, cold caches, strictly sorted attached maps -/

mutual
/-- the attached map of every SourceMapSource outside ReplaceSource nodes is strictly sorted by generated position (a
ReplaceSource re-chunks its inner stream, so nothing is asked of the maps beneath it) -/
def Src.StrictMaps : Src → Prop
  | .sms _ _ map _ _ _ => (decode map.mappings).Pairwise mlt
  | .concat cs => cs.StrictMapsL
  | .cached _ inner => inner.StrictMaps
  | _ => True
def SrcList.StrictMapsL : SrcList → Prop
  | .nil => True
  | .cons s r => s.StrictMaps ∧ r.StrictMapsL
end

mutual
theorem Src.incC : ∀ (s : Src), s.ModeHypC → s.StrictMaps → s.ids.Nodup → ∀ (σ : Store), Cold σ s.ids →
    Inc s.src 0 s.src.length (s.stream ⟨true, true⟩ σ).1.evs
  | .raw _ _ lossy, _, _, _, σ, _ => by simp only [Src.stream, streamRaw, if_true]; exact inc_nil _ _ _
  | .rawStr t, _, _, _, σ, _ => by simp only [Src.stream, streamRaw, if_true]; exact inc_nil _ _ _
  | .rawBuf _ lossy, _, _, _, σ, _ => by simp only [Src.stream, streamRaw, if_true]; exact inc_nil _ _ _
  | .orig t name, _, _, _, σ, _ => by simp only [Src.stream, Src.src]; exact streamOriginal_final_inc t name
  | .sms t name map origSrc inner remove, h, hs, _, σ, _ => by
    simp only [Src.ModeHypC] at h
    simp only [Src.StrictMaps] at hs
    obtain ⟨_, ha, hl, _, hseg, _⟩ := h
    simp only [Src.stream, Src.src]
    have hleaf := streamSM_final_inc t map ha hl (fun m hm => (hseg m hm).1) hs
    cases inner with
    | none => exact hleaf
    | some im => unfold Inc at hleaf ⊢; rw [streamCombined_posOf]; exact hleaf
  | .concat .nil, _, _, _, σ, _ => by simp only [Src.stream, concatStream, concatGo]; exact inc_nil _ _ _
  | .concat (.cons s rest), h, hs, hn, σ, hc => by
    simp only [Src.ModeHypC, SrcList.ModeHypsC] at h
    simp only [Src.StrictMaps, SrcList.StrictMapsL] at hs
    simp only [Src.ids, Src.cachedNodes, SrcList.cachedNodesL, List.map_append] at hn hc
    have hn1 := (List.nodup_append.1 hn).1
    have hn2 := (List.nodup_append.1 hn).2.1
    have hdisj := (List.nodup_append.1 hn).2.2
    have hc1 := (cold_sub _ _ _ hc).1
    have hi := Src.incC s h.1 hs.1 hn1 σ hc1
    cases hr : rest with
    | nil => simp only [Src.stream, Src.src, SrcList.srcs, List.append_nil]; exact hi
    | cons s2 rest2 =>
      have hc2 : Cold (s.stream ⟨true, true⟩ σ).2 (SrcList.cons s2 rest2).idsL := by
        rw [← hr]; exact cold_after s _ σ _ (cold_sub _ _ _ hc).2 (fun i hi hmem => hdisj i hmem i hi rfl)
      have hrest := SrcList.incsC (.cons s2 rest2) (hr ▸ h.2) (hr ▸ hs.2) (hr ▸ hn2) _ hc2
      obtain ⟨_, _, _, _, _, _, b7⟩ := Src.base_factsC s h.1 hn1 σ σ hc1 hc1
      simp only [Src.stream, Src.src]
      have hsrc : (SrcList.cons s (SrcList.cons s2 rest2)).srcs = (s.src :: (SrcList.cons s2 rest2).srcList).flatten := by
        rw [List.flatten_cons, SrcList.srcList_flatten]; rfl
      rw [hsrc]
      exact concatStream_inc true _ _ (IncAll.cons _ _ _ _ b7 hi hrest)
  | .replace inner rs, h, _, hn, σ, hc => by
    obtain ⟨b1, _, b3, b4, _, _, _⟩ := Src.base_factsC (.replace inner rs) h hn σ σ hc hc
    have hNE : AllNEc ((Src.replace inner rs).stream ⟨true, false⟩ σ).1.evs := by
      simp only [Src.stream]; exact replaceStream_allNE _ _
    have := inc_normal _ b1 b3 hNE
    rw [b4] at this
    simpa [Src.stream] using this
  | .cached id inner, h, hs, hn, σ, hc => by
    simp only [Src.ModeHypC] at h
    simp only [Src.StrictMaps] at hs
    simp only [Src.ids, Src.cachedNodes, List.map_cons, List.nodup_cons] at hn hc
    simp only [Src.stream, Src.src]
    rw [hc id (by simp) _]
    simp only
    exact Src.incC inner h.1 hs hn.2 σ (fun i hi => hc i (List.mem_cons_of_mem _ hi))
theorem SrcList.incsC : ∀ (l : SrcList), l.ModeHypsC → l.StrictMapsL → l.idsL.Nodup → ∀ (σ : Store), Cold σ l.idsL →
    IncAll (l.streams ⟨true, true⟩ σ).1 l.srcList
  | .nil, _, _, _, σ, _ => IncAll.nil
  | .cons s rest, h, hs, hn, σ, hc => by
    simp only [SrcList.ModeHypsC] at h
    simp only [SrcList.StrictMapsL] at hs
    simp only [SrcList.idsL, SrcList.cachedNodesL, List.map_append] at hn hc
    have hn1 := (List.nodup_append.1 hn).1
    have hn2 := (List.nodup_append.1 hn).2.1
    have hdisj := (List.nodup_append.1 hn).2.2
    have hc1 := (cold_sub _ _ _ hc).1
    have hc2 : Cold (s.stream ⟨true, true⟩ σ).2 rest.idsL :=
      cold_after s _ σ _ (cold_sub _ _ _ hc).2 (fun i hi hmem => hdisj i hmem i hi rfl)
    obtain ⟨_, _, _, _, _, _, b7⟩ := Src.base_factsC s h.1 hn1 σ σ hc1 hc1
    simp only [SrcList.streams, SrcList.srcList]
    exact IncAll.cons _ _ _ _ b7 (Src.incC s h.1 hs.1 hn1 σ hc1) (SrcList.incsC rest h.2 hs.2 hn2 _ hc2)
end

end Rs
