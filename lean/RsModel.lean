import RsModel.Model.Basic
import RsModel.Generated.Consts
import RsModel.Model.Codec
import RsModel.Model.Stream
import RsModel.Model.Combined
import RsModel.Model.Rope
import RsModel.Model.Composite
import RsModel.Model.Tree
