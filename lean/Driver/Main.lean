import Driver.Proto
import RsModel.Model.EqHash
/-!
# `rsdriver`: reads protocol requests on stdin, answers on stdout, one line each.
State: named trees and the store of cached maps (persisting until `reset`).
-/
open Rs Rs.Proto

structure DState where
  trees : List (String × Src) := []
  store : Store := []

def DState.tree? (d : DState) (n : String) : Option Src := (d.trees.find? (·.1 == n)).map (·.2)

def step (d : DState) (line : String) : DState × String :=
  let ts := (line.trimAscii.toString.splitOn " ").filter (· ≠ "")
  let bad : DState × String := (d, "bad-op")
  match ts with
  | ["reset"] => ({}, "ok")
  | "tree" :: name :: rest =>
    match pNode (rest.length + 1) rest with
    | some (s, []) => ({ d with trees := (name, s) :: d.trees.filter (·.1 ≠ name) }, "ok")
    | _ => bad
  | ["src", n] => match d.tree? n with | some s => (d, showText s.src) | none => bad
  | ["buffer", n] => match d.tree? n with | some s => (d, showText s.buffer) | none => bad
  | ["size", n] => match d.tree? n with | some s => (d, toString s.size) | none => bad
  | ["rope", n] =>
    match d.tree? n with
    | some s => (d, match s.rope with | .ok r => "ok " ++ showText r.render | .error _ => "panic")
    | none => bad
  | ["writer", n, k] =>
    match d.tree? n, k.toNat? with
    | some s, some k => let r := s.toWriter k []; (d, s!"{showBool r.1} {showText r.2.2}")
    | _, _ => bad
  | ["stream", n, c, f] =>
    match d.tree? n, pBool [c], pBool [f] with
    | some s, some (c, _), some (f, _) =>
      let r := s.stream ⟨c, f⟩ d.store
      ({ d with store := r.2 }, showSResult r.1)
    | _, _, _ => bad
  | ["map", n, c, f] =>
    match d.tree? n, pBool [c], pBool [f] with
    | some s, some (c, _), some (f, _) =>
      let r := s.map ⟨c, f⟩ d.store
      ({ d with store := r.2 }, showOpt showSMap r.1)
    | _, _, _ => bad
  | "feed" :: n :: rest =>
    match d.tree? n, pList (fun ts => do let (i, ts) ← pNat ts; let (v, ts) ← pNat ts; pure ((i, v), ts)) rest with
    | some s, some (tbl, []) =>
      let f : Nat → Nat := fun i => ((tbl.find? (·.1 == i)).map (·.2)).getD 0
      (d, showList showCall (s.callsT f))
    | _, _ => bad
  | ["eq", n, m] =>
    match d.tree? n, d.tree? m with
    | some a, some b => (d, showBool (a.eqv b))
    | _, _ => bad
  | ["clonecheck", n] =>
    match d.tree? n with
    | some a => (d, if a.eqv a then "15" else "14")
    | none => bad
  | "enc" :: c :: rest =>
    match pBool [c], pList pMapping rest with
    | some (c, _), some (ms, []) => (d, showText (encodeWith c ms))
    | _, _ => bad
  | ["dec", s] =>
    match pText [s] with
    | some (t, _) => (d, showList showMapping (decode t))
    | none => bad
  | _ => bad

partial def loop (h : IO.FS.Stream) (out : IO.FS.Stream) (d : DState) : IO Unit := do
  let line ← h.getLine
  if line.isEmpty then return ()
  let (d', resp) := step d line
  out.putStrLn resp
  out.flush
  loop h out d'

def main : IO Unit := do
  let out ← IO.getStdout
  loop (← IO.getStdin) out {}
  out.flush
