import Driver.Proto
import RsModel.Model.EqHash
import RsModel.Model.Json
import RsModel.Model.Conc
import RsModel.Model.ConcV
import RsModel.Model.Checked
/-!
# `rsdriver`: reads protocol requests on stdin, answers on stdout, one line each.
State: named trees and the store of cached maps (persisting until `reset`).
-/
open Rs Rs.Proto

/-- rope construction programs (C16) -/
inductive RExpr where
  | new | from_ (t : Text) | iter (ts : List Text) | add (e : RExpr) (t : Text) | append (a b : RExpr)
  | slice (e : RExpr) (a b : Nat) | line (e : RExpr) (k : Nat)

def pRExpr : Nat → P RExpr
  | 0 => fun _ => none
  | fuel + 1 => fun ts => match ts with
    | "new" :: ts => some (.new, ts)
    | "from" :: ts => do let (t, ts) ← pText ts; pure (.from_ t, ts)
    | "iter" :: ts => do let (l, ts) ← pList pText ts; pure (.iter l, ts)
    | "add" :: ts => do let (e, ts) ← pRExpr fuel ts; let (t, ts) ← pText ts; pure (.add e t, ts)
    | "append" :: ts => do let (a, ts) ← pRExpr fuel ts; let (b, ts) ← pRExpr fuel ts; pure (.append a b, ts)
    | "slice" :: ts => do let (e, ts) ← pRExpr fuel ts; let (a, ts) ← pNat ts; let (b, ts) ← pNat ts; pure (.slice e a b, ts)
    | "line" :: ts => do let (e, ts) ← pRExpr fuel ts; let (k, ts) ← pNat ts; pure (.line e k, ts)
    | _ => none

/-- evaluate; `.error` = the program panics (out-of-domain slice) or violates an unsafe precondition -/
def evalR : RExpr → Except String Rope
  | .new => .ok Rope.new
  | .from_ t => .ok (.light t)
  | .iter ts => .ok (Rope.fromIter ts)
  | .add e t => (evalR e).map (·.add t)
  | .append a b => do let x ← evalR a; let y ← evalR b; pure (x.append y)
  | .slice e a b => do
    let r ← evalR e
    if a > b ∨ b > r.len then .error "slice"
    else if !r.sliceUnsafeOK a b then .error "unsafe"
    else match r.byteSlice a b with | .ok x => pure x | .error _ => .error "slice"
  | .line e k => do
    let r ← evalR e
    match (r.linesR true)[k]? with | some x => pure x | none => .error "noline"

def showTrapB : Except Rope.Trap Bool → String
  | .ok b => showBool b
  | .error _ => "panic"

/-- all unary observers of a rope, one line -/
def ropeObs (r : Rope) : String :=
  let t := r.render
  let bytes := (List.range (r.len + 2)).map fun i => match r.getByte i with | .ok (some b) => toString b.toNat | .ok none => "-" | .error _ => "!"
  let slices := (List.range (r.len + 2)).map fun a => (List.range (r.len + 2)).map fun b =>
    if a > b ∨ b > r.len then "-" else if !r.sliceUnsafeOK a b then "U" else match r.byteSlice a b with | .ok x => showText x.render | .error _ => "-"
  let ci := r.charIndices.map fun (i, c) => s!"{i}:{c}"
  s!"len {r.len} empty {showBool r.isEmpty} text {showText t} bytes {" ".intercalate bytes} ci {",".intercalate ci} lines {showList (fun x => showText x.render) (r.linesR true)} endsnl {showBool (r.endsWith NL)} endsa {showBool (r.endsWith 97)} eqstr {showTrapB (r.eqStr t)} slices {" ".intercalate (slices.map (",".intercalate ·))}"

/-- steps without a schedule point of their own (the thread-local end of `clone`, the initialisation inside
`get_or_init`) happen right after the access that precedes them -/
def concStep (s : Conc.Sys) (i : Nat) : Option Conc.Sys :=
  match Conc.step s i with
  | none => none
  | some s' =>
    match s'.ths[i]? with
    | some t =>
      match t.ops.head?, t.pc with
      | some .clone, 2 => some ((Conc.step s' i).getD s')
      | some .once, 1 => some ((Conc.step s' i).getD s')
      | _, _ => some s'
    | none => some s'

/-- replay of an observed order of steps (C18): a step that is disabled in the model (blocked on the shard lock)
is deferred and retried after every later step -/
def concReplay (s : Conc.Sys) : List Nat → List Nat → Conc.Sys × List Nat
  | pending, [] => (s, pending)
  | pending, i :: rest =>
    match concStep s i with
    | some s' =>
      -- retry deferred steps, in order
      let (s'', pend') := pending.foldl (fun (acc : Conc.Sys × List Nat) j =>
        match concStep acc.1 j with | some x => (x, acc.2) | none => (acc.1, acc.2 ++ [j])) (s', [])
      concReplay s'' pend' rest
    | none => concReplay s (pending ++ [i]) rest

def pOp : P Conc.Op := fun ts => match ts with
  | "s" :: ts => some (.sorted, ts) | "c" :: ts => some (.clone, ts) | "m" :: ts => some (.cmap, ts)
  | "t" :: ts => some (.cstream, ts) | "o" :: ts => some (.once, ts) | _ => none

/-! the same replay on the value-carrying protocol (`Model/ConcV.lean`) -/
def concvStep (P : ConcV.Params) (s : ConcV.Sys) (i : Nat) : Option ConcV.Sys :=
  match ConcV.step P s i with
  | none => none
  | some s' =>
    match s'.ths[i]? with
    | some t =>
      match t.ops.head?, t.pc with
      | some .clone, 2 => some ((ConcV.step P s' i).getD s')
      | some .once, 1 => some ((ConcV.step P s' i).getD s')
      | _, _ => some s'
    | none => some s'

def concvReplay (P : ConcV.Params) (s : ConcV.Sys) : List Nat → List Nat → ConcV.Sys × List Nat
  | pending, [] => (s, pending)
  | pending, i :: rest =>
    match concvStep P s i with
    | some s' =>
      let (s'', pend') := pending.foldl (fun (acc : ConcV.Sys × List Nat) j =>
        match concvStep P acc.1 j with | some x => (x, acc.2) | none => (acc.1, acc.2 ++ [j])) (s', [])
      concvReplay P s'' pend' rest
    | none => concvReplay P s (pending ++ [i]) rest

def pOpV : P ConcV.Op := fun ts => match ts with
  | "s" :: ts => some (.sorted, ts) | "c" :: ts => some (.clone, ts)
  | "m" :: ts => some (.call (.io (true, .map)), ts) | "t" :: ts => some (.call (.io (true, .stream)), ts)
  | "n" :: ts => some (.call (.io (false, .map)), ts) | "u" :: ts => some (.call (.io (false, .stream)), ts)
  | "o" :: ts => some (.once, ts) | _ => none

/-- one completed call, as the single-threaded verbs print their answers -/
def showAnsV (inner : Text) : ConcV.Ans → String
  | .sorted rs => "text " ++ showText (RState.source inner { repls := [], sorted := rs, isSorted := true })
  | .cloned c => "text " ++ showText (c.source inner)
  | .call _ (.io (.stream r)) => "stream " ++ showSResult r
  | .call _ (.io (.map m)) => "map " ++ showOpt showSMap m
  | .call _ (.text t) => "text " ++ showText t
  | .call _ (.num n) => s!"num {n}"
  | .once _ => "once"

structure DState where
  trees : List (String × Src) := []
  store : Store := []

def DState.tree? (d : DState) (n : String) : Option Src := (d.trees.find? (·.1 == n)).map (·.2)

def step (d : DState) (line : String) : DState × String :=
  let ts := (line.trimAscii.toString.splitOn " ").filter (· ≠ "")
  let bad : DState × String := (d, "bad-op")
  match ts with
  | ["reset"] => ({}, "ok")
  | "tree" :: name :: rest =>
    match pNode (rest.length + 1) rest with
    | some (s, []) => ({ d with trees := (name, s) :: d.trees.filter (·.1 ≠ name) }, "ok")
    | _ => bad
  -- `source()` through the checked splice (`trap` where the Rust would panic; equal to `s.src` on the domain: c17_source_total)
  | ["src", n] => match d.tree? n with | some s => (d, match s.srcC with | some t => showText t | none => "trap") | none => bad
  | ["buffer", n] => match d.tree? n with | some s => (d, showText s.buffer) | none => bad
  | ["size", n] => match d.tree? n with | some s => (d, toString s.size) | none => bad
  | ["rope", n] =>
    match d.tree? n with
    | some s => (d, match s.rope with | .ok r => "ok " ++ showText r.render | .error _ => "panic")
    | none => bad
  | ["writer", n, k] =>
    match d.tree? n, k.toNat? with
    | some s, some k => let r := s.toWriter k []; (d, s!"{showBool r.1} {showText r.2.2}")
    | _, _ => bad
  | ["stream", n, c, f] =>
    match d.tree? n, pBool [c], pBool [f] with
    | some s, some (c, _), some (f, _) =>
      -- through the checked splitters (`trap` where the Rust would panic; equal to `s.stream` on the domain: C17)
      match s.streamC false ⟨c, f⟩ d.store with
      | some r => ({ d with store := r.2 }, showSResult r.1)
      | none => (d, "trap")
    | _, _, _ => bad
  -- the same for a build with overflow checks: ConcatSource's `u32` additions are partial too (K4 lives there)
  | ["chkstream", n, c, f] =>
    match d.tree? n, pBool [c], pBool [f] with
    | some s, some (c, _), some (f, _) =>
      match s.streamC true ⟨c, f⟩ d.store with
      | some r => ({ d with store := r.2 }, showSResult r.1)
      | none => (d, "trap")
    | _, _, _ => bad
  | ["map", n, c, f] =>
    match d.tree? n, pBool [c], pBool [f] with
    | some s, some (c, _), some (f, _) =>
      let r := s.map ⟨c, f⟩ d.store
      ({ d with store := r.2 }, showOpt showSMap r.1)
    | _, _, _ => bad
  | "feed" :: n :: rest =>
    match d.tree? n, pList (fun ts => do let (i, ts) ← pNat ts; let (v, ts) ← pNat ts; pure ((i, v), ts)) rest with
    | some s, some (tbl, []) =>
      let f : Nat → Nat := fun i => ((tbl.find? (·.1 == i)).map (·.2)).getD 0
      (d, showList showCall (s.callsT f))
    | _, _ => bad
  | ["eq", n, m] =>
    match d.tree? n, d.tree? m with
    | some a, some b => (d, showBool (a.eqv b))
    | _, _ => bad
  | ["clonecheck", n] =>
    match d.tree? n with
    | some a => (d, if a.eqv a then "15" else "14")
    | none => bad
  | "rope" :: "obs" :: rest =>
    match pRExpr (rest.length + 1) rest with
    | some (e, []) => (d, match evalR e with | .ok r => ropeObs r | .error m => "panic " ++ m)
    | _ => bad
  | "rope" :: "pair" :: rest =>
    match pRExpr (rest.length + 1) rest with
    | some (e1, rest2) =>
      match pRExpr (rest2.length + 1) rest2 with
      | some (e2, rest3) =>
        match rest3, evalR e1, evalR e2 with
        | [], .ok a, .ok b => (d, s!"eq {showTrapB (a.eqRope b)} sw {showBool (a.startsWith b)} ws {showBool (b.startsWith a)} eqs {showTrapB (a.eqStr b.render)}")
        | [], _, _ => (d, "panic build")
        | _, _, _ => bad
      | none => bad
    | none => bad
  | "json-write" :: rest =>
    match pSMap rest with
    | some (m, []) => (d, showText (Json.writeSMap m))
    | _ => bad
  | ["json-parse", s] =>
    match pText [s] with
    | some (t, _) => (d, showOpt showSMap (Json.fromJson t))
    | none => bad
  | "conc" :: rest =>
    match pList (pList pOp) rest with
    | some (progs, rest2) =>
      match pList pNat rest2 with
      | some (sched, []) =>
        let (fin, pend) := concReplay (Conc.initSys progs) [] sched
        let oks := fin.ths.map fun t => showBool t.ok ++ (if t.ops.isEmpty then "d" else "u")
        (d, s!"ok {" ".intercalate oks} entry {match fin.sh.entry with | none => "-" | some .M => "M" | some .S => "S"} flag {showBool fin.sh.flag} idx {showBool fin.sh.idxSorted} once {showBool fin.sh.once} lock {showOpt toString fin.sh.lock} pending {pend.length}")
      | _ => bad
    | none => bad
  -- concv R C progs sched: R a ReplaceSource tree (shared, not yet sorted), C a CachedSource tree (shared, cold)
  | "concv" :: rn :: cn :: rest =>
    match d.tree? rn, d.tree? cn, pList (pList pOpV) rest with
    | some (.replace rinner rs), some (.cached id cinner), some (progs, rest2) =>
      match pList pNat rest2 with
      | some (sched, []) =>
        let P : ConcV.Params := { id := id, inner := cinner, hv := 0 }
        let (fin, pend) := concvReplay P (ConcV.initSys { repls := rs, sorted := [], isSorted := false } [] progs) [] sched
        let done := fin.ths.all fun t => t.ops.isEmpty
        let answers := (fin.ths.map fun t => t.outs.map (showAnsV rinner.src)).flatten
        (d, s!"ok done {showBool done} pending {pend.length} locks {showOpt toString fin.sh.lockT} {showOpt toString fin.sh.lockF} log {fin.sh.log.length}" ++ String.join (answers.map fun a => " # " ++ a))
      | _ => bad
    | _, _, _ => bad
  | "enc" :: c :: rest =>
    match pBool [c], pList pMapping rest with
    | some (c, _), some (ms, []) => (d, showText (encodeWith c ms))
    | _, _ => bad
  | ["dec", s] =>
    match pText [s] with
    | some (t, _) => (d, showList showMapping (decode t))
    | none => bad
  | _ => bad

partial def loop (h : IO.FS.Stream) (out : IO.FS.Stream) (d : DState) : IO Unit := do
  let line ← h.getLine
  if line.isEmpty then return ()
  let (d', resp) := step d line
  out.putStrLn resp
  out.flush
  loop h out d'

def main : IO Unit := do
  let out ← IO.getStdout
  loop (← IO.getStdin) out {}
  out.flush
