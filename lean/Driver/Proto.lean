import RsModel.Model.Tree
import RsModel.Model.EqHash
/-!
# Line protocol (DESIGN Appendix C): parsing of requests, printing of responses.
Strings are `x<hex>`, numbers decimal, lists length-prefixed, options `-` / `+ v`.
-/
namespace Rs.Proto
open Rs

abbrev P (α : Type) := List String → Option (α × List String)

def tok : P String
  | [] => none
  | t :: ts => some (t, ts)

def pNat : P Nat := fun ts => match ts with
  | t :: ts => t.toNat?.map (·, ts)
  | [] => none

def hexVal (c : Char) : Option Nat :=
  if '0' ≤ c ∧ c ≤ '9' then some (c.toNat - 48)
  else if 'a' ≤ c ∧ c ≤ 'f' then some (c.toNat - 87)
  else none

def hexBytes : List Char → Option Text
  | [] => some []
  | a :: b :: rest => do
    let h ← hexVal a; let l ← hexVal b; let r ← hexBytes rest
    pure (UInt8.ofNat (h * 16 + l) :: r)
  | _ => none

def pText : P Text := fun ts => match ts with
  | t :: ts => match t.toList with
    | 'x' :: cs => (hexBytes cs).map (·, ts)
    | _ => none
  | [] => none

def pBool : P Bool := fun ts => match ts with
  | "1" :: ts => some (true, ts)
  | "0" :: ts => some (false, ts)
  | _ => none

def pOpt {α} (p : P α) : P (Option α) := fun ts => match ts with
  | "-" :: ts => some (none, ts)
  | "+" :: ts => (p ts).map fun (a, r) => (some a, r)
  | _ => none

def pRep {α} (p : P α) : Nat → P (List α)
  | 0 => fun ts => some ([], ts)
  | n + 1 => fun ts => do
    let (a, ts) ← p ts
    let (as, ts) ← pRep p n ts
    pure (a :: as, ts)

def pList {α} (p : P α) : P (List α) := fun ts => do
  let (n, ts) ← pNat ts
  pRep p n ts

def pSMap : P SMap := fun ts => do
  let (mappings, ts) ← pText ts
  let (sources, ts) ← pList pText ts
  let (sourcesContent, ts) ← pList pText ts
  let (names, ts) ← pList pText ts
  let (file, ts) ← pOpt pText ts
  let (sourceRoot, ts) ← pOpt pText ts
  let (debugId, ts) ← pOpt pText ts
  pure ({ mappings, sources, sourcesContent, names, file, sourceRoot, debugId }, ts)

def pRepl : P Repl := fun ts => do
  let (start, ts) ← pNat ts
  let (stop, ts) ← pNat ts
  let (content, ts) ← pText ts
  let (name, ts) ← pOpt pText ts
  let (enforce, ts) ← pNat ts
  pure ({ start, stop, content, name, enforce }, ts)

/-- parse a node; fuel bounds the nesting depth (token count suffices) -/
def pNode : Nat → P Src
  | 0 => fun _ => none
  | fuel + 1 => fun ts => match ts with
    | "raw" :: ts => do let (t, ts) ← pText ts; pure (.raw false t t, ts)
    | "rawb" :: ts => do let (b, ts) ← pText ts; let (l, ts) ← pText ts; pure (.raw true b l, ts)
    | "rawstr" :: ts => do let (t, ts) ← pText ts; pure (.rawStr t, ts)
    | "rawbuf" :: ts => do let (b, ts) ← pText ts; let (l, ts) ← pText ts; pure (.rawBuf b l, ts)
    | "orig" :: ts => do let (t, ts) ← pText ts; let (n, ts) ← pText ts; pure (.orig t n, ts)
    | "sms" :: ts => do
      let (t, ts) ← pText ts; let (n, ts) ← pText ts; let (m, ts) ← pSMap ts
      let (os, ts) ← pOpt pText ts; let (im, ts) ← pOpt pSMap ts; let (rm, ts) ← pBool ts
      pure (.sms t n m os im rm, ts)
    | "concat" :: ts => do
      let (n, ts) ← pNat ts
      let (items, ts) ← pRep (fun ts => match ts with
        | "t" :: ts => do
          let (s, ts) ← pNode fuel ts
          match s with
          | .concat cs => pure (CItem.typed cs.toList, ts)
          | _ => none
        | "b" :: ts => do let (s, ts) ← pNode fuel ts; pure (CItem.other s, ts)
        | _ => none) n ts
      pure (mkConcat items, ts)
    | "replace" :: ts => do
      let (inner, ts) ← pNode fuel ts
      let (rs, ts) ← pList pRepl ts
      pure (.replace inner rs, ts)
    | "cached" :: ts => do
      let (id, ts) ← pNat ts
      let (inner, ts) ← pNode fuel ts
      pure (.cached id inner, ts)
    | _ => none

def pOrig : P Orig := fun ts => do
  let (src, ts) ← pNat ts; let (line, ts) ← pNat ts; let (col, ts) ← pNat ts; let (name, ts) ← pOpt pNat ts
  pure ({ src, line, col, name }, ts)

def pMapping : P Mapping := fun ts => do
  let (gl, ts) ← pNat ts; let (gc, ts) ← pNat ts; let (orig, ts) ← pOpt pOrig ts
  pure ({ gl, gc, orig }, ts)

/-! ## printing -/

def hexDigit (n : Nat) : Char := if n < 10 then Char.ofNat (48 + n) else Char.ofNat (87 + n)

def showText (t : Text) : String :=
  String.ofList ('x' :: (t.map fun b => [hexDigit (b.toNat / 16), hexDigit (b.toNat % 16)]).flatten)

def showOpt {α} (f : α → String) : Option α → String
  | none => "-"
  | some a => "+ " ++ f a

def showList {α} (f : α → String) (l : List α) : String :=
  toString l.length ++ (l.map fun a => " " ++ f a).foldl (· ++ ·) ""

def showOrig (o : Orig) : String :=
  s!"{o.src} {o.line} {o.col} {showOpt toString o.name}"

def showMapping (m : Mapping) : String := s!"{m.gl} {m.gc} {showOpt showOrig m.orig}"

def showEv : Ev → String
  | .chunk t m => s!"c {showOpt showText t} {showMapping m}"
  | .source i n c => s!"s {i} {showText n} {showOpt showText c}"
  | .name i n => s!"n {i} {showText n}"

def showSResult (r : SResult) : String := s!"{r.info.line} {r.info.col} {showList showEv r.evs}"

def showSMap (m : SMap) : String :=
  s!"{showText m.mappings} {showList showText m.sources} {showList showText m.sourcesContent} {showList showText m.names} {showOpt showText m.file} {showOpt showText m.sourceRoot} {showOpt showText m.debugId}"

def showCall : HCall → String
  | .bytes b => "b" ++ showText b
  | .u8 n => s!"u8:{n}"
  | .u32 n => s!"u32:{n}"
  | .u64 n => s!"u64:{n}"
  | .usize n => s!"us:{n}"
  | .isize n => s!"is:{n}"

def showBool (b : Bool) : String := if b then "1" else "0"

end Rs.Proto
