#!/bin/sh
# usage: tools/seed_matrix.sh <worktree-prefix-id> <k> <checks...>
ID=$1; K=$2; shift 2
echo "--- $ID seed $K"; /verif/tools/try_seed.sh /tmp/wt_$ID/seeded_out/$K/patch.diff "$@"
