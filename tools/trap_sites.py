#!/usr/bin/env python3
"""Trap ledger of C17: which Rust expressions of the functions restated in lean/RsModel/Model/Checked.lean can panic.

  tools/trap_sites.py --list    print the sites found in /repo's current source (function | normalised line)
  tools/trap_sites.py --check   compare them with tools/trap_ledger.json; exit 1 and print the differences if the set changed

A "site" is a line (local identifiers replaced by `_`, so that renaming a variable is not a change) of one of the listed function bodies that contains an indexing / slicing expression `x[..]`, a binary `+ - *`
or a compound `+= -= *=`, or one of unwrap / expect / unreachable! / panic! / assert.  The ledger classifies every site as
`checked:<definition in Checked.lean>` (restated there as a partial operation, proved never to fire), `safe:<why>` (cannot
panic by its type or by a guard on the same lines: usize sums of lengths, an `unwrap` right after the assignment of `Some`), or
`argued:<why>` (not restated in checked form: the reason it cannot fire is an argument from other theorems, named there).  When the source changes so
that a site appears, disappears or changes text, the ledger — and therefore the no-trap theorems — no longer describe the code:
the check reports the tie as broken (and searches for a failing input as for any broken correspondence).
"""
import json, os, re, sys

REPO = os.environ.get("VERIF_REPO", "/repo")
ROOT = os.path.dirname(os.path.dirname(os.path.abspath(__file__)))
LEDGER = os.path.join(ROOT, "tools", "trap_ledger.json")

FUNCS = [
    ("src/helpers.rs", "get_generated_source_info"),
    ("src/helpers.rs", "stream_chunks_of_raw_source"),
    ("src/helpers.rs", "stream_chunks_of_source_map_final"),
    ("src/helpers.rs", "stream_chunks_of_source_map_full"),
    ("src/helpers.rs", "stream_chunks_of_source_map_lines_final"),
    ("src/helpers.rs", "stream_chunks_of_source_map_lines_full"),
    ("src/replace_source.rs", "source"),
    ("src/concat_source.rs", "stream_chunks"),
    ("src/with_indices.rs", "substring"),
    ("src/encoder.rs", "encode"),
    ("src/original_source.rs", "stream_chunks"),
    ("src/helpers.rs", "next"),
]

def strip_comments(text):
    out = []
    for line in text.split("\n"):
        # no string in these functions contains `//`
        i = line.find("//")
        out.append(line if i < 0 else line[:i])
    return "\n".join(out)

def bodies(text, name):
    """all bodies of `fn name` (a name may be implemented more than once in a file)"""
    res = []
    for m in re.finditer(r"\bfn\s+%s\b" % re.escape(name), text):
        i = text.find("{", m.end())
        semi = text.find(";", m.end())
        if i < 0 or (0 <= semi < i):      # a declaration without body (trait method)
            continue
        # skip a `where` clause / generics: the first `{` after the signature is the body
        depth, j = 0, i
        while j < len(text):
            if text[j] == "{": depth += 1
            elif text[j] == "}":
                depth -= 1
                if depth == 0: break
            j += 1
        res.append(text[i:j + 1])
    return res

KEEP = {"as", "usize", "u32", "i64", "u64", "len", "unwrap", "expect", "if", "else", "let", "mut", "return", "Some", "None", "assert",
        "saturating_add", "checked_add", "wrapping_add", "min", "max", "count"}

def norm(line):
    """identifiers other than keywords / the arithmetic-relevant method names become `_`: renaming a variable is not a new site"""
    return re.sub(r"\b[A-Za-z_]\w*\b", lambda m: m.group(0) if m.group(0) in KEEP else "_", line)

SITE = re.compile(r"[\w\)\]]\[|\s[-+*]=?\s|\.unwrap\(\)|\.expect\(|unreachable!|panic!|\bassert")

def sites():
    found = []
    for path, fn in FUNCS:
        text = strip_comments(open(os.path.join(REPO, path)).read())
        # with the `verif` feature off the guarded hook lines do not exist: drop them
        text = re.sub(r"#\[cfg\(feature = \"verif\"\)\]\s*crate::verif::[^;]*;", "", text, flags=re.S)
        for k, body in enumerate(bodies(text, fn)):
            for line in body.split("\n"):
                l = " ".join(line.split())
                if SITE.search(" " + l + " "):
                    found.append("%s::%s%s | %s" % (os.path.basename(path), fn, "" if k == 0 else "#%d" % k, norm(l)))
    return found

def main():
    cur = sites()
    if "--list" in sys.argv:
        print("\n".join(cur)); return 0
    if "--init" in sys.argv:
        old = json.load(open(LEDGER)) if os.path.exists(LEDGER) else {}
        led = {}
        for s in cur:
            e = led.setdefault(s, {"count": 0, "class": old.get(s, {}).get("class", "TODO")})
            e["count"] += 1
        json.dump(led, open(LEDGER, "w"), indent=1); print(len(led), "distinct sites"); return 0
    led = json.load(open(LEDGER))
    cur_set = {}
    for s in cur: cur_set[s] = cur_set.get(s, 0) + 1
    new = [s for s in cur_set if s not in led or led[s]["count"] != cur_set[s]]
    gone = [s for s in led if s not in cur_set]
    todo = [s for s in led if str(led[s]["class"]).startswith("TODO")]
    if new or gone or todo:
        for s in new: print("NEW SITE (not in the ledger, or its number of occurrences changed): " + s)
        for s in gone: print("SITE GONE (ledger entry without source line): " + s)
        for s in todo: print("UNCLASSIFIED: " + s)
        return 1
    print("trap ledger: %d sites, all classified (%d checked, %d safe by type)" % (
        sum(v["count"] for v in led.values()), sum(v["count"] for v in led.values() if v["class"].startswith("checked")),
        sum(v["count"] for v in led.values() if v["class"].startswith("safe"))) + ", %d argued" % sum(v["count"] for v in led.values() if v["class"].startswith("argued")))
    return 0

if __name__ == "__main__":
    sys.exit(main())
