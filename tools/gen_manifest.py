#!/usr/bin/env python3
"""Rewrite MANIFEST.json from props_index.json (one entry per claimed property)."""
import json, os
ROOT = os.path.dirname(os.path.dirname(os.path.abspath(__file__)))
idx = json.load(open(os.path.join(ROOT, "props_index.json")))
props = [json.loads(l) for l in open(os.path.join(ROOT, "properties.jsonl"))]
man = {
 "version": 1,
 "setup_cmd": "./setup.sh",
 "hooks": {"guard": "verif (cargo feature of rspack_sources)",
           "enable": "harness/Cargo.toml depends on /repo with features=[\"verif\"]; cargo build --offline in /verif/harness",
           "baseline_off_cmd": "cd /repo && cargo test --workspace --no-fail-fast --offline",
           "source_commits": json.load(open(os.path.join(ROOT, "hook_commits.json"))),
           "add_only": True},
 "engines": [
  {"name": "lean-model", "path": "lean/", "serves_properties": sorted(idx.keys()), "kind_free_text": "Lean 4 model (RsModel/Model), specs, lemmas and property theorems (RsModel/Props); rsdriver line-protocol executable"},
  {"name": "harness", "path": "harness/", "serves_properties": sorted(idx.keys()), "kind_free_text": "Rust correspondence + oracle harness calling the real crate in-process and the model through rsdriver"}],
 "checks": [], "not_applicable": [],
 "notes": "Each check: regenerate extracted constants, lake build the property's theorems, audit axioms, build harness against /repo, correspondence + oracle. See DESIGN.md."}
for p in props:
    pid = p["id"]
    if pid in idx:
        s = idx[pid]
        man["checks"].append({
            "property_id": pid,
            "quick_cmd": "./check %s --tier quick" % pid,
            "thorough_cmd": "./check %s --tier thorough" % pid,
            "evidence_file": "/verif/evidence/%s.json" % pid,
            "replay_cmd_template": "./check %s --replay {path}" % pid,
            "engine": "lean-model+harness",
            "level_claimed": {"category": s.get("level", "other"), "text": s["level_text"], "design_ref": "DESIGN.md section 6, " + pid},
            "level_note": s.get("level_note", "Lean kernel; axioms propext/Classical.choice/Quot.sound; hand-written model tied by correspondence check; std and third-party crates trusted as in DESIGN.md section 9"),
            "technique": s.get("technique", "Lean 4 theorems about an executable model + differential correspondence check against the crate")})
    else:
        man["not_applicable"].append({"property_id": pid, "reason": "check not built yet in this round (framework under construction); to be claimed"})
json.dump(man, open(os.path.join(ROOT, "MANIFEST.json"), "w"), indent=1)
print("claimed", len(man["checks"]), "not_applicable", len(man["not_applicable"]))
