#!/bin/sh
# usage: tools/seed_matrix_all.sh  — applies every seeded change in turn to /repo, runs the checks listed in its meta.json
# (caught_by), reverts, and writes seeded/matrix.json.  /repo must be clean; it is left clean.
cd /verif || exit 2
OUT=/verif/seeded/matrix.txt; : > $OUT
for d in seeded/S*/; do
  id=$(basename $d)
  checks=$(python3 -c "import json;print(' '.join(json.load(open('$d/meta.json')).get('caught_by',[])[:2]))")
  if ! git -C /repo apply --check /verif/$d/patch.diff 2>/dev/null; then echo "$id NOAPPLY" >> $OUT; continue; fi
  git -C /repo apply /verif/$d/patch.diff
  line="$id"
  for c in $checks; do
    ./check $c > /tmp/matrix_$c.out 2>&1; rc=$?
    v=$(grep -c '^VIOLATION' /tmp/matrix_$c.out); nf=$(grep -c 'no-failing-input-found' /tmp/matrix_$c.out)
    line="$line $c:rc=$rc:viol=$v:nofail=$nf"
  done
  git -C /repo checkout -- .
  echo "$line" >> $OUT
done
git -C /repo status --short | head -3 >> $OUT
echo DONE >> $OUT
