#!/bin/sh
# usage: tools/coverage.sh [cases]      (support tool, not part of any check)
# Builds the harness with source-based coverage (nightly rustc driven by the pinned cargo, offline), runs every property's generator
# for <cases> cases and prints which lines of /repo/src the harness reached.  Scratch goes to /tmp/verif-cov and is removed at the end.
# Purpose: generator quality (DESIGN §12.8): a branch of the crate no case reaches cannot be held against the model.
set -u
CASES=${1:-20000}
OUT=/tmp/verif-cov
rm -rf $OUT; mkdir -p $OUT/prof
NIGHTLY_RUSTC=$(rustup which rustc --toolchain nightly) || exit 2
LT=$(dirname $(dirname $NIGHTLY_RUSTC))/lib/rustlib/x86_64-unknown-linux-gnu/bin
cd /verif/harness || exit 2
RUSTC=$NIGHTLY_RUSTC RUSTFLAGS="-C instrument-coverage" CARGO_TARGET_DIR=$OUT/target CARGO_NET_OFFLINE=true cargo build --offline --release >/dev/null 2>&1 || { echo "build failed"; exit 2; }
(cd /verif/lean && lake build rsdriver >/dev/null 2>&1)
for p in C01 C02 C03 C04 C05 C06 C07 C08 C09 C10 C11 C12 C13 C14 C15 C16 C17 C19 C20; do
  (cd $OUT && LLVM_PROFILE_FILE=$OUT/prof/$p-%p.profraw $OUT/target/release/rsverif $p --seed 1 --cases $CASES --threads 8 \
     --driver /verif/lean/.lake/build/bin/rsdriver --out $OUT/$p.json --corpus /verif/corpus/$p >/dev/null 2>&1)
done
$LT/llvm-profdata merge -sparse $OUT/prof/*.profraw -o $OUT/all.profdata
$LT/llvm-cov report $OUT/target/release/rsverif -instr-profile=$OUT/all.profdata /repo/src/*.rs 2>/dev/null
echo "--- lines never reached (Debug/fmt impls omitted by eye) ---"
for f in /repo/src/*.rs; do
  $LT/llvm-cov show $OUT/target/release/rsverif -instr-profile=$OUT/all.profdata $f 2>/dev/null | grep -E "^ +[0-9]+\| +0\|" | sed "s|^|$(basename $f):|" | grep -v "fmt\|write!\|writeln!\|indent" 
done
rm -rf $OUT
