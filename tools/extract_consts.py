#!/usr/bin/env python3
"""Regenerate lean/RsModel/Generated/Consts.lean from /repo/src (DESIGN 4.2).

A deliberately small translator: it copies literal tables and constants out of the Rust source.
If a pattern is no longer found it exits 2 (a broken proof obligation, see DESIGN section 5)."""
import re, sys, os

class Missing(Exception):
    pass

def die(msg):
    raise Missing(msg)

MISSING = []
def group(name, fn, default):
    """run one extraction group; when its pattern is gone keep the pinned default and record the group as missing"""
    try:
        return fn()
    except Missing as e:
        MISSING.append("%s: %s" % (name, e))
        return default

def read(root, f):
    with open(os.path.join(root, f), encoding="utf-8") as fh: return fh.read()

def const_u8(src, name, env):
    m = re.search(r"const\s+%s\s*:\s*u8\s*=\s*([^;]+);" % name, src)
    if not m: die("const %s not found" % name)
    expr = m.group(1)
    for k, v in env.items(): expr = re.sub(r"\b%s\b" % k, str(v), expr)
    if not re.fullmatch(r"[0-9a-fA-Fx|&\s()+]+", expr): die("const %s: unexpected expr %r" % (name, expr))
    return eval(expr)

def main():
    root = sys.argv[1] if len(sys.argv) > 1 else "/repo/src"
    enc = read(root, "encoder.rs"); dec = read(root, "decoder.rs")

    def g_b64chars():
        m = re.search(r'const\s+B64_CHARS\s*:\s*&\[u8\]\s*=\s*b"([^"]+)"', enc)
        if not m: die("B64_CHARS not found")
        return m.group(1)
    chars = group("b64", g_b64chars, "ABCDEFGHIJKLMNOPQRSTUVWXYZabcdefghijklmnopqrstuvwxyz0123456789+/")

    def g_dec():
        env = {}
        for n in ["COM", "SEM", "ERR", "CONTINUATION_BIT", "DATA_MASK"]:
            env[n] = const_u8(dec, n, env)
        m = re.search(r"const\s+B64\s*:\s*\[u8;\s*256\]\s*=\s*\[(.*?)\];", dec, re.S)
        if not m: die("B64 table not found")
        body = re.sub(r"//[^\n]*", "", m.group(1))
        toks = [t.strip() for t in body.split(",") if t.strip()]
        if len(toks) != 256: die("B64 table has %d entries" % len(toks))
        table = []
        for t in toks:
            if t in env: table.append(env[t])
            elif t.isdigit(): table.append(int(t))
            else: die("B64 entry %r" % t)
        m = re.search(r"current_data:\s*\[\s*(\d+)u32,\s*(\d+)u32,\s*(\d+)u32,\s*(\d+)u32,\s*(\d+)u32\s*\]", dec)
        if not m: die("decoder initial fields not found")
        return env, table, [int(x) for x in m.groups()]
    ddef_env = {"COM": 64, "SEM": 65, "ERR": 66, "CONTINUATION_BIT": 32, "DATA_MASK": 31}
    ddef_tab = [66] * 256
    for i, c in enumerate("ABCDEFGHIJKLMNOPQRSTUVWXYZabcdefghijklmnopqrstuvwxyz0123456789+/"): ddef_tab[ord(c)] = i
    ddef_tab[ord(",")] = 64; ddef_tab[ord(";")] = 65
    env, table, init = group("b64", g_dec, (ddef_env, ddef_tab, [0, 0, 1, 0, 0]))

    def g_lits():
        lits = re.findall(r'extend\(b"([A-Za-z0-9+/]*)"\)', enc)
        if sorted(set(lits)) != sorted({"AACA", "AA", "A"}): die("lines-only literals changed: %r" % lits)
        return True
    group("lines-literals", g_lits, True)

    def g_tags():
        tags = {}
        for f, ty in [("raw_source.rs", "RawSource"), ("raw_source.rs", "RawStringSource"), ("raw_source.rs", "RawBufferSource"),
                      ("original_source.rs", "OriginalSource"), ("source_map_source.rs", "SourceMapSource"),
                      ("concat_source.rs", "ConcatSource"), ("replace_source.rs", "ReplaceSource")]:
            s = read(root, f)
            m = re.search(r"impl(?:<[^>]*>)?\s+Hash\s+for\s+%s(?:<[^>]*>)?\s*\{\s*fn hash<H:\s*(?:std::hash::)?Hasher>\(&self,\s*state:\s*&mut H\)\s*\{\s*\"([A-Za-z]+)\"\.hash\(state\);" % ty, s)
            if not m: die("hash tag of %s not found" % ty)
            tags[ty] = m.group(1)
        return tags
    tags = group("hash-tags", g_tags, {t: t for t in ["RawSource", "RawStringSource", "RawBufferSource", "OriginalSource", "SourceMapSource", "ConcatSource", "ReplaceSource"]})

    rs = read(root, "replace_source.rs")
    def g_sort():
        m = re.search(r"\(a\.(\w+),\s*a\.(\w+),\s*a\.(\w+)\)\.cmp\(&\(b\.(\w+),\s*b\.(\w+),\s*b\.(\w+)\)\)", rs)
        if not m: die("replacement sort key not found")
        key = list(m.groups()[:3])
        if list(m.groups()[3:]) != key: die("asymmetric sort key")
        if not re.search(r"\.sorted_by\(", rs): die("replacements are no longer sorted with the stable `sorted_by`")
        m = re.search(r"pub enum ReplacementEnforce\s*\{(.*?)\}", rs, re.S)
        if not m: die("ReplacementEnforce not found")
        variants = re.findall(r"^\s*([A-Z]\w*),", re.sub(r"///[^\n]*|#\[[^\]]*\]", "", m.group(1)), re.M)
        return key, variants
    key, variants = group("sort-key", g_sort, (["start", "end", "enforce"], ["Pre", "Normal", "Post"]))

    hp = read(root, "helpers.rs")
    def g_tok():
        if not re.search(r"while c != '\\n' && c != ';' && c != '\{' && c != '\}'", hp): die("token stop class changed")
        if not re.search(r"while c == ';'\s*\|\| c == ' '\s*\|\| c == '\{'\s*\|\| c == '\}'\s*\|\| c == '\\r'\s*\|\| c == '\\t'", hp): die("token tail class changed")
        return True
    group("token-classes", g_tok, True)

    def lst(xs): return "[" + ", ".join(str(x) for x in xs) + "]"
    def bytes_of(s): return lst(list(s.encode()))
    out = []
    out.append("/- GENERATED by tools/extract_consts.py from /repo/src — do not edit. -/")
    out.append("namespace Rs.Generated")
    out.append("def b64Chars : List UInt8 := " + bytes_of(chars))
    out.append("def b64Table : List UInt8 := " + lst(table))
    for n in ["COM", "SEM", "ERR", "CONTINUATION_BIT", "DATA_MASK"]:
        out.append("def %s : UInt8 := %d" % (n, env[n]))
    out.append("def decInit : List Nat := " + lst(init))
    out.append("def linesLitNext : List UInt8 := " + bytes_of("AACA"))
    out.append("def linesLitSame : List UInt8 := " + bytes_of("AA"))
    out.append("def linesLitCol : List UInt8 := " + bytes_of("A"))
    for ty, tag in tags.items():
        out.append("def tag%s : List UInt8 := %s" % (ty, bytes_of(tag)))
    out.append("def sortKey : List String := " + "[" + ", ".join('"%s"' % k for k in key) + "]")
    out.append("def enforceOrder : List String := " + "[" + ", ".join('"%s"' % k for k in variants) + "]")
    out.append("def tokenStop : List UInt8 := " + bytes_of("\n;{}"))
    out.append("def tokenTail : List UInt8 := " + bytes_of("; {}\r\t"))
    out.append("end Rs.Generated")
    sys.stdout.write("\n".join(out) + "\n")
    # groups whose pattern was not found (one per line on stderr, prefixed); exit code stays 0: the caller decides per property
    for m in MISSING:
        sys.stderr.write("MISSING " + m + "\n")

main()
