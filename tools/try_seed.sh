#!/bin/sh
# usage: tools/try_seed.sh <patch.diff> <Cxx> [Cyy ...]   — applies the patch to /repo, runs the quick checks, reverts
set -u
P="$1"; shift
cd /repo || exit 2
git apply --check "$P" || { echo "patch does not apply"; exit 2; }
git apply "$P"
cd /verif
for c in "$@"; do
  ./check "$c" > /tmp/try_seed_$c.out 2>&1; rc=$?
  echo "== $c exit=$rc: $(grep -E 'VIOLATION|quick:' /tmp/try_seed_$c.out | head -3 | tr '\n' ' ' | cut -c1-400)"
done
git -C /repo checkout -- . 
git -C /repo status --short | head -3
