#!/bin/sh
# usage: tools/confirm_seed.sh <Cxx> <k> <seed-id>
# Confirms in the scratch worktree /tmp/wt_<Cxx>: patch applies, existing suite green with it, demo fails with / passes without.
# On success copies patch.diff, demo.rs, notes.md to /verif/seeded/<seed-id>/ and writes confirm.log there.
P=$1; K=$2; ID=$3
WT=/tmp/wt_$P; SD=$WT/seeded_out/$K
cd $WT || exit 2
git checkout -q -- src; rm -f tests/seed_confirm_demo.rs
LOG=/tmp/confirm_$ID.log; : > $LOG
git apply --check $SD/patch.diff >> $LOG 2>&1 || { echo "$ID: patch does not apply"; exit 1; }
git apply $SD/patch.diff
cargo test --offline >> $LOG 2>&1; SUITE=$?
NPASS=$(grep -E "^test result: ok" $LOG | awk '{s+=$4} END {print s}')
cp $SD/demo.rs tests/seed_confirm_demo.rs
cargo test --offline --test seed_confirm_demo >> $LOG 2>&1; WITH=$?
git checkout -q -- src
cargo test --offline --test seed_confirm_demo >> $LOG 2>&1; WITHOUT=$?
rm -f tests/seed_confirm_demo.rs
echo "$ID: suite_rc=$SUITE passed=$NPASS demo_with_patch_rc=$WITH demo_without_patch_rc=$WITHOUT"
if [ $SUITE -eq 0 ] && [ "$NPASS" = "88" ] && [ $WITH -ne 0 ] && [ $WITHOUT -eq 0 ]; then
  mkdir -p /verif/seeded/$ID && cp $SD/patch.diff $SD/demo.rs $SD/notes.md /verif/seeded/$ID/ && echo "confirmed: existing suite 88 passed with patch; demo fails with patch (rc=$WITH), passes without (rc=0)" > /verif/seeded/$ID/confirm.log
  echo "$ID: CONFIRMED"
else
  echo "$ID: NOT CONFIRMED (see $LOG)"
fi
