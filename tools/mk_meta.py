#!/usr/bin/env python3
"""usage: tools/mk_meta.py <seed-dir-name> <property> <origin-round> <breaks> <needs> <caught_by comma list> <history> <ran>"""
import sys, json, os
d, prop, rnd, breaks, needs, caught, hist, ran = sys.argv[1:9]
p = f"/verif/seeded/{d}"
meta = {"property": prop, "origin": f"sub-agent {rnd}-{prop} (property text + own worktree only)", "breaks": breaks, "needs": needs,
        "caught_by": [c for c in caught.split(",") if c], "history": hist,
        "confirmed": open(f"{p}/confirm.log").read().strip(), "ran": ran}
json.dump(meta, open(f"{p}/meta.json", "w"), indent=1)
print("wrote", p)
