#!/bin/sh
# MANIFEST.setup_cmd: build the Lean model, theorems and driver, and the Rust harness, offline.
set -e
cd "$(dirname "$0")"
python3 tools/extract_consts.py /repo/src > lean/RsModel/Generated/Consts.lean.new && mv lean/RsModel/Generated/Consts.lean.new lean/RsModel/Generated/Consts.lean
(cd lean && lake build RsModel rsdriver $(python3 -c "import json;print(' '.join('RsModel.Props.'+k for k in json.load(open('../props_index.json'))))"))
(cd harness && CARGO_NET_OFFLINE=true cargo build --offline --release && CARGO_NET_OFFLINE=true cargo build --offline)
