#!/bin/sh
set -e
cd "$(dirname "$0")"
(cd lean && lake build RsModel rsdriver)
